#!/venv/bin/python
"""tools/mutant.py <patch.diff> [--demo demo.py] [--checks C03,C16|all] [--tests] [--name NAME]
Applies the patch to a scratch worktree of /repo HEAD (never to /repo), optionally confirms the
demonstration (passes clean / fails mutated) and the baseline tests, runs the named checks against
the scratch tree (IOOS_QC_SRC) and prints which ones report a VIOLATION.  Removes the worktree."""
import argparse, json, os, subprocess, sys, time, shutil
from pathlib import Path
ROOT = Path(__file__).resolve().parent.parent
ap = argparse.ArgumentParser()
ap.add_argument("patch"); ap.add_argument("--demo"); ap.add_argument("--checks", default="")
ap.add_argument("--tests", action="store_true"); ap.add_argument("--name"); ap.add_argument("--tier", default="quick")
ap.add_argument("--seed", default="0")
a = ap.parse_args()
name = a.name or Path(a.patch).stem
wt = Path(f"/tmp/vf-scratch-{name}-{os.getpid()}")
def sh(cmd, **kw):
    return subprocess.run(cmd, shell=True, capture_output=True, text=True, **kw)
res = {"name": name, "patch": a.patch}
r = sh(f"git -C /repo worktree add -q --detach {wt} HEAD")
assert r.returncode == 0, r.stderr
try:
    env = dict(os.environ, PYTHONPATH=str(wt), PYTHONDONTWRITEBYTECODE="1")
    if a.demo:
        r0 = subprocess.run(["/venv/bin/python", a.demo], env=env, cwd=wt, capture_output=True, text=True, timeout=600)
        res["demo_clean_rc"] = r0.returncode
    r = sh(f"git -C {wt} apply {Path(a.patch).resolve()}")
    if r.returncode:  # the tree moved on since the patch was written (a later fix: commit): merge it in
        r = sh(f"git -C {wt} apply --3way {Path(a.patch).resolve()}")
        res["applied_3way"] = r.returncode == 0
    res["applies"] = r.returncode == 0
    if not res["applies"]:
        res["apply_error"] = r.stderr[-300:]
    else:
        if a.demo:
            r1 = subprocess.run(["/venv/bin/python", a.demo], env=env, cwd=wt, capture_output=True, text=True, timeout=600)
            res["demo_mutant_rc"] = r1.returncode
        if a.tests:
            t = subprocess.run("/venv/bin/python -m pytest -q -p no:cacheprovider --timeout=900 tests -k 'not performance' "
                               "--deselect tests/test_config_creator.py::TestQartodConfigurator --deselect tests/test_utils.py::TestReadXarrayConfig",
                               shell=True, env=env, cwd=wt, capture_output=True, text=True, timeout=1800)
            res["tests_tail"] = t.stdout.strip().splitlines()[-1] if t.stdout.strip() else t.stderr[-200:]
            res["tests_pass"] = t.returncode == 0
        checks = [c for c in a.checks.split(",") if c]
        if checks == ["all"]:
            checks = [f"C{i:02d}" for i in range(1, 21)]
        res["checks"] = {}
        for c in checks:
            t0 = time.time()
            e2 = dict(os.environ, IOOS_QC_SRC=str(wt), VERIF_SEED=a.seed)
            r = subprocess.run([str(ROOT / "vf"), "check", c, "--tier", a.tier], env=e2, capture_output=True, text=True, timeout=7200)
            viol = [l.split("#")[-1].strip() for l in r.stdout.splitlines() if l.startswith("VIOLATION")]
            res["checks"][c] = {"rc": r.returncode, "violations": viol[:6], "n_classes": len(viol), "wall": round(time.time() - t0, 1)}
finally:
    sh(f"git -C /repo worktree remove --force {wt}")
    shutil.rmtree(wt, ignore_errors=True)
print(json.dumps(res, indent=1))
