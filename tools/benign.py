#!/venv/bin/python
"""Behaviour-preserving refactors: every check must stay silent on them (false-alarm validation).
tools/benign.py [name-substr]  -> validation/benign_matrix.json"""
import json, os, subprocess, sys, time, shutil
from concurrent.futures import ThreadPoolExecutor
from pathlib import Path
ROOT = Path(__file__).resolve().parent.parent
Q = "ioos_qc/qartod.py"; A = "ioos_qc/argo.py"; X = "ioos_qc/axds.py"; S = "ioos_qc/streams.py"
R = "ioos_qc/results.py"; C = "ioos_qc/config.py"; U = "ioos_qc/utils.py"; ST = "ioos_qc/stores.py"
FX = "ioos_qc/config_creator/fx_parser.py"; CC = "ioos_qc/config_creator/config_creator.py"
B = [
 ("fx-clear-stack-before-parse", FX, "    _ = BNF().parseString(fx, parseAll=True)\n    val = evaluate_stack(exprStack[:], stats)",
  "    exprStack[:] = []\n    _ = BNF().parseString(fx, parseAll=True)\n    val = evaluate_stack(exprStack[:], stats)", "C20"),
 ("fx-grammar-built-once", FX, "    _ = BNF().parseString(fx, parseAll=True)", "    global _BNF\n    try:\n        _BNF\n    except NameError:\n        _BNF = BNF()\n    _ = _BNF.parseString(fx, parseAll=True)", "C20"),
 ("compare-vectorised-mask-aware", Q, "    for p in priorities:\n        for v in vectors:\n            idx = np.where(v == p)[0]\n            result[idx] = p",
  "    for p in priorities:\n        hit = np.zeros(shapes[0], dtype=bool)\n        for v in vectors:\n            hit |= np.ma.filled(np.ma.masked_array(v) == p, False)\n        result[hit] = p", "C04,C19"),
 ("flatline-sliding-window-view", Q, "        shape = a.shape[:-1] + (a.shape[-1] - window + 1, window + 1)\n        strides = (*a.strides, a.strides[-1])\n        arr = np.lib.stride_tricks.as_strided(a, shape=shape, strides=strides)\n        return np.ma.masked_invalid(arr[:-1, :])",
  "        if len(a) < window + 1:\n            return np.ma.MaskedArray(np.empty((0, window + 1)))\n        arr = np.lib.stride_tricks.sliding_window_view(a, window + 1)\n        return np.ma.masked_invalid(arr)", "C11,C02,C17,C16"),
 ("gross-range-filled-comparisons", Q, "            flag_arr[(inp < uspan.minv) | (inp > uspan.maxv)] = QartodFlags.SUSPECT",
  "            flag_arr[np.ma.filled((inp < uspan.minv) | (inp > uspan.maxv), False)] = QartodFlags.SUSPECT", "C03,C02,C15,C16"),
 ("spike-explicit-interior-loop", Q, "        ref = np.ma.zeros(inp.size, dtype=np.float64)\n        ref[1:-1] = (inp[0:-2] + inp[2:]) / 2\n        ref = np.ma.masked_invalid(ref)",
  "        ref = np.ma.zeros(inp.size, dtype=np.float64)\n        if inp.size > 2:\n            ref[1:-1] = inp[:-2] / 2 + inp[2:] / 2\n        ref = np.ma.masked_invalid(ref)", "C09,C17,C02"),
 ("roc-elapsed-via-int64", Q, "        np.diff(inp) / np.diff(tinp).astype(\"timedelta64[s]\").astype(float),",
  "        np.diff(inp) / (np.diff(tinp).astype(\"timedelta64[ns]\").astype(\"int64\") // 10**9).astype(float),", "C10,C17,C15"),
 ("pandas-stream-mask-from-frame", S, "                        keep &= (subset[self.time_column] >= context.window.starting).to_numpy()",
  "                        keep &= np.asarray(self.df[self.time_column] >= context.window.starting)", "C05,C06,C18"),
 ("numpy-stream-copy-mask", S, "                    if context.window.starting:\n                        subset_indexes = (subset_indexes) & (self.tinp >= context.window.starting)",
  "                    if context.window.starting:\n                        subset_indexes = np.logical_and(subset_indexes, np.asarray(self.tinp >= context.window.starting))", "C05,C06,C18"),
 ("collect-list-scatter-always", R, "            if r.subset_indexes.all():\n                # Copy so another context is never scattered into the source arrays\n                collected[cr.hash_key].data = np.array(r.data)",
  "            if r.subset_indexes.all():\n                # Copy so another context is never scattered into the source arrays\n                collected[cr.hash_key].data = np.array(r.data, copy=True)", "C06,C18,C19"),
 ("config-window-explicit", C, "            self.window = tw(**self.config[\"window\"])",
  "            self.window = tw(starting=self.config[\"window\"].get(\"starting\"), ending=self.config[\"window\"].get(\"ending\"))", "C07,C05"),
 ("call-run-filter-by-signature-params", C, "        valid_keywords = [\n            p.name for p in sig.parameters.values() if p.kind == p.POSITIONAL_OR_KEYWORD\n        ]",
  "        valid_keywords = {\n            name for name, p in sig.parameters.items() if p.kind is p.POSITIONAL_OR_KEYWORD\n        }", "C05,C18"),
 ("cf-safe-compiled-regex", U, "        return re.sub(r\"[^_a-zA-Z0-9]\", \"_\", name)", "        return \"\".join(ch if (ch.isascii() and (ch.isalnum() or ch == \"_\")) else \"_\" for ch in name)", "C19"),
 ("store-filter-helper", ST, "            if include is not None and (\n                cr.function not in include\n                and cr.stream_id not in include\n                and cr.test not in include\n            ):\n                continue",
  "            if include is not None and not any(k in include for k in (cr.function, cr.stream_id, cr.test)):\n                continue", "C19"),
 ("density-explicit-mask", Q, "    is_missing = inp.mask | zinp.mask", "    is_missing = np.ma.getmaskarray(inp) | np.ma.getmaskarray(zinp)", "C13,C02"),
 ("speed-abs-removed-noop", A, "    speed[1:] = np.abs(\n        dist[1:] / np.diff(tinp).astype(\"timedelta64[s]\").astype(float),\n    )",
  "    elapsed = np.diff(tinp).astype(\"timedelta64[s]\").astype(float)\n    speed[1:] = np.abs(dist[1:] / elapsed)", "C10,C17"),
 ("creator-stats-via-array", CC, "            \"std\": np.nanstd(subset),", "            \"std\": float(np.sqrt(np.nanmean((np.asarray(subset) - np.nanmean(subset)) ** 2))),", "C20"),
 ("climatology-week-via-index", Q, "                    tinp_copy = pd.Index(\n                        tinp.isocalendar().week,\n                        dtype=\"int64\",\n                    )",
  "                    tinp_copy = tinp.isocalendar().week.to_numpy().astype(\"int64\")", "C08,C02"),
]

def run_one(m):
    name, file, old, new, checks = m
    wt = Path(f"/tmp/vf-scratch-benign-{name}")
    subprocess.run(f"git -C /repo worktree add -q --detach {wt} HEAD", shell=True, check=True, capture_output=True)
    res = {"name": name, "file": file, "checks": {}}
    try:
        p = wt / file
        s = p.read_text()
        if s.count(old) != 1:
            res["error"] = f"pattern occurs {s.count(old)} times"; return res
        p.write_text(s.replace(old, new))
        t = subprocess.run("/venv/bin/python -m pytest -q -x -p no:cacheprovider --timeout=900 tests -k 'not performance' "
                           "--deselect tests/test_config_creator.py::TestQartodConfigurator --deselect tests/test_utils.py::TestReadXarrayConfig",
                           shell=True, env=dict(os.environ, PYTHONPATH=str(wt), PYTHONDONTWRITEBYTECODE="1"), cwd=wt, capture_output=True, text=True)
        res["tests_pass"] = t.returncode == 0
        for c in checks.split(","):
            t0 = time.time()
            r = subprocess.run([str(ROOT / "vf"), "check", c, "--tier", os.environ.get("BENIGN_TIER", "quick")], env=dict(os.environ, IOOS_QC_SRC=str(wt)), capture_output=True, text=True)
            viol = [l.split("#")[-1].strip() for l in r.stdout.splitlines() if l.startswith(("VIOLATION", "INCONCLUSIVE"))]
            res["checks"][c] = {"rc": r.returncode, "lines": viol[:4], "wall": round(time.time() - t0, 1)}
    finally:
        subprocess.run(f"git -C /repo worktree remove --force {wt}", shell=True, capture_output=True)
        shutil.rmtree(wt, ignore_errors=True)
    return res

sel = [m for m in B if len(sys.argv) < 2 or any(a in m[0] for a in sys.argv[1:])]
with ThreadPoolExecutor(max_workers=int(os.environ.get("OWN_PAR", "2"))) as ex:
    results = list(ex.map(run_one, sel))
out = ROOT / "validation" / "benign_matrix.json"
prev = json.loads(out.read_text()) if out.exists() else {}
for r in results:
    prev[r["name"]] = r
out.write_text(json.dumps(prev, indent=1))
for r in results:
    if "error" in r:
        print("ERR ", r["name"], r["error"]); continue
    bad = {c: v for c, v in r["checks"].items() if v["rc"] != 0}
    print(f"{'ALARM' if bad else 'quiet'} {r['name']:38s} tests_pass={r.get('tests_pass')} " + " ".join(f"{c}:rc{v['rc']}" for c, v in r["checks"].items()) +
          ("  " + "; ".join(l for v in bad.values() for l in v["lines"][:2]) if bad else ""))
