#!/venv/bin/python
"""tools/benign_ext.py <outb-dir> <PID> : behaviour-preserving refactors written by independent sub-agents.
Each refactorN.diff is applied to a scratch worktree, the baseline tests are run, then ALL 20 quick checks; results go to
validation/benign_ext/<PID>-<N>/ (patch.diff, meta.json).  Any alarm is either a false alarm of ours or a refactor that is
not behaviour-preserving after all -- to be triaged by hand."""
import json, os, subprocess, sys, shutil, time
from pathlib import Path
ROOT = Path(__file__).resolve().parent.parent
# `tools/benign_ext.py rerun <ID-N>` re-applies validation/benign_ext/<ID-N>/patch.diff (3-way if the tree moved on)
RERUN = sys.argv[1] == "rerun"
if RERUN:
    _d = ROOT / "validation" / "benign_ext" / sys.argv[2]
    out, pid = _d, sys.argv[2].split("-")[0]
else:
    out, pid = Path(sys.argv[1]), sys.argv[2]
ALL = [f"C{i:02d}" for i in range(1, 21)]
FILEMAP = {"qartod.py": ["C01", "C02", "C15", "C16", "C17"], "argo.py": ["C01", "C02", "C10", "C13", "C15", "C16", "C17"],
           "axds.py": ["C01", "C02", "C03", "C15", "C16", "C17"], "utils.py": ["C01", "C03", "C07", "C08", "C10", "C14", "C15", "C17", "C19"],
           "results.py": ["C04", "C05", "C06", "C18", "C19"], "streams.py": ["C04", "C05", "C06", "C18", "C19"],
           "config.py": ["C05", "C07", "C18"], "stores.py": ["C04", "C19"], "fx_parser.py": ["C20"], "config_creator.py": ["C20"]}
checks_arg = sys.argv[3].split(",") if len(sys.argv) > 3 else None
for diff in (sorted(out.glob("refactor?.diff")) if not RERUN else [out / "patch.diff"]):
    n = diff.stem[-1] if not RERUN else sys.argv[2].split("-")[1]
    if os.environ.get("ONLY") and n not in os.environ["ONLY"].split(","):
        continue
    meta = json.loads((out / f"meta{n}.json").read_text()) if (out / f"meta{n}.json").exists() else {}
    if RERUN:
        meta = json.loads((out / "meta.json").read_text())
    wt = Path(f"/tmp/vf-scratch-bext-{pid}-{n}")
    subprocess.run(f"git -C /repo worktree add -q --detach {wt} HEAD", shell=True, check=True, capture_output=True)
    res = {"checks": {}}
    touched = [l.split("/")[-1].strip() for l in diff.read_text().splitlines() if l.startswith("+++ b/")]
    checks = checks_arg or sorted({pid, *(c for f in touched for c in FILEMAP.get(f, ALL))})
    try:
        r = subprocess.run(f"git -C {wt} apply {diff.resolve()}", shell=True, capture_output=True, text=True)
        if r.returncode:
            r = subprocess.run(f"git -C {wt} apply --3way {diff.resolve()}", shell=True, capture_output=True, text=True)
        if r.returncode:
            print(pid, n, "does not apply:", r.stderr[-200:]); continue
        t = subprocess.run("/venv/bin/python -m pytest -q -x -p no:cacheprovider --timeout=900 tests -k 'not performance' "
                           "--deselect tests/test_config_creator.py::TestQartodConfigurator --deselect tests/test_utils.py::TestReadXarrayConfig",
                           shell=True, env=dict(os.environ, PYTHONPATH=str(wt), PYTHONDONTWRITEBYTECODE="1"), cwd=wt, capture_output=True, text=True)
        res["tests_pass"] = t.returncode == 0
        for c in checks:
            t0 = time.time()
            r = subprocess.run([str(ROOT / "vf"), "check", c, "--tier", "quick"], env=dict(os.environ, IOOS_QC_SRC=str(wt)), capture_output=True, text=True)
            lines = [l.split("#")[-1].strip() if l.startswith("VIOLATION") else l[:200] for l in r.stdout.splitlines() if l.startswith(("VIOLATION", "INCONCLUSIVE"))]
            res["checks"][c] = {"rc": r.returncode, "lines": lines[:5], "wall": round(time.time() - t0, 1)}
    finally:
        subprocess.run(f"git -C /repo worktree remove --force {wt}", shell=True, capture_output=True)
        shutil.rmtree(wt, ignore_errors=True)
    dest = ROOT / "validation" / "benign_ext" / f"{pid}-{n}"
    dest.mkdir(parents=True, exist_ok=True)
    if not RERUN:
        shutil.copy(diff, dest / "patch.diff")
    meta.update({"origin": "independent sub-agent asked for a behaviour-preserving refactor", **res})
    (dest / "meta.json").write_text(json.dumps(meta, indent=1))
    bad = {c: v for c, v in res["checks"].items() if v["rc"] != 0}
    print(f"{pid}-{n}: tests_pass={res.get('tests_pass')} {'ALARM ' + json.dumps({c: v['lines'][:2] for c, v in bad.items()})[:600] if bad else 'quiet on ' + ','.join(res['checks'])} :: {meta.get('summary', '')[:100]}")
