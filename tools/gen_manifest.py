#!/venv/bin/python
"""Regenerates MANIFEST.json from the table below + the check modules that exist."""
import json, os, sys
from pathlib import Path
ROOT = Path(__file__).resolve().parent.parent
sys.path.insert(0, str(ROOT))

REPO_FIXES = []  # filled from known_findings.json (fixed entries)

TABLE = {
 # id: (category, technique, level text, level note, design_ref)
 "C01": ("exploration", "runtime contracts (icontract) + boundary client + write trap + history replay on real calls",
         "Every call of the 11 test functions in generated/enumerated workloads is judged by per-call postconditions (no raise, shape, alphabet, no mask, inputs untouched, read-only re-execution equal, history independence); held on the executions observed, not a proof.",
         "Trusts numpy read-only flags to trap writes and the harness's own generators to stay inside the documented input domain."),
 "C02": ("exploration", "runtime monitor: missing-implication postcondition on every call, exhaustive 2^n missing placements",
         "All 2^n / 4^n placements of missing values for small n under parameter grids that make every verdict reachable; the monitor checks both directions of the implication per index.",
         "needs(i) sets are taken from the property statement; positions the statement leaves open admit several flags."),
 "C03": ("exploration", "runtime monitor: reference-model postcondition over an exhaustive boundary grid",
         "Bounded-exhaustive grid of spans x boundary values x carriers judged by a scalar model of the statement; exhaustive for the grid, sampled beyond it.",
         "Dyadic values so comparisons are exact; reversed valid_span and int dtype + None bound are outside the claimed domain."),
 "C04": ("exploration", "runtime monitor: precedence model + algebraic laws over recorded results, mask poisoning",
         "Full table of k<=3 vectors over the 8-symbol alphabet plus seeded long inputs; pointwise model and order/multiplicity/grouping laws on recorded outputs, including roll-ups produced by real stream runs and the store.",
         "Masked entries are backed by poison values so reads under a mask become visible."),
 "C05": ("exploration", "probe test function + Call.run spy inside real stream runs; offline comparison with direct calls",
         "Tables with unique row ids are run through every front end; a probe registered as a QC test records exactly which rows/axes each call received, and reported flags are compared with direct calls of the real function on the window rows.",
         "NetCDF-4 cannot be read here (no h5py): file front ends use NetCDF-3; time axes are whole seconds."),
 "C06": ("exploration", "id/tag-decoding monitor on collect_results over all window partitions and arrival orders",
         "All partitions of <=8 rows into <=3 disjoint windows and all arrival orders; every collected flag decodes to the row and context that produced it, uncovered rows masked/UNKNOWN with poison underneath.",
         "ContextResults come from the real streams (one CallResult each)."),
 "C07": ("exploration", "intended-call multiset oracle over grammar-generated configs x carriers x layouts",
         "Each generated config is rendered in every carrier/layout that can spell it and Config(...).calls is compared with the call multiset the generator intended.",
         "Carriers are only asked for what they can spell (per-variable xarray attributes cannot carry windows/regions)."),
 "C08": ("exploration", "runtime monitor: scalar last-match climatology model, boundary-seeking workloads",
         "Boundary grids over every span end of 1-2 members plus seeded member lists over calendar edges, judged by a scalar model using Python datetime (independent of pandas).",
         "Times are whole seconds; periods limited to those named in the docs."),
 "C09": ("exploration", "runtime monitor: scalar neighbour model, exhaustive short series",
         "All series of length <=4 (<=5 thorough) over a 7-symbol value set x all threshold pairs x both methods; seeded longer series with thresholds drawn from the d's present.",
         "Dyadic values make d exact."),
 "C10": ("exploration", "runtime monitor: exact rational rate model + direct WGS84 geodesic oracle",
         "Irregular whole-second axes in 6 carriers, rates exactly on thresholds, asymmetric tracks; distances from geographiclib called per pair with a 1e-9 guard band.",
         "geographiclib is trusted as the geodesic ground truth."),
 "C11": ("exploration", "runtime monitor: window model + byte-bounds hook on as_strided views (+ valgrind memcheck in thorough)",
         "Sweep n x step x plateau x thresholds (incl. non-multiples, 0, longer than series) x tolerances around the window range, judged by a per-point model; every strided view materialised is checked to lie inside its base buffer; thorough tier re-runs a compact sweep under valgrind memcheck.",
         "Regularly sampled series only (the statement's domain)."),
 "C12": ("exploration", "runtime monitor: window-spread model with guard band",
         "Windows whose edge falls exactly on sample times, all min_obs/min_period settings, both check types, judged by a scalar model; spreads within 1e-9 of a threshold admit both flags.",
         "min_period only on regular axes (sampling step defined)."),
 "C13": ("exploration", "runtime monitor: pair model + mirror relation",
         "Profiles (down/up/down-up/stationary/repeated) with density steps on thresholds and all missing placements, judged by a pair model and by the reverse-profile relation.",
         "pressure_increasing_test gets NaN-free input; mean step 0 is outside the judged domain."),
 "C14": ("exploration", "runtime monitor: box/hop model with direct geodesic oracle, exhaustive 4^n missing placements",
         "Tracks over box corners/edges/inside/outside with tiny and huge hops, all lon/lat missing placements for n<=4, judged by a scalar model.",
         "bbox=None is outside the claimed domain."),
 "C15": ("exploration", "history relation: flags of every carrier group equal the baseline member",
         "Each logical case is executed under every documented data/time/span carrier; an offline checker groups the recorded results by case and demands equality with the float64/datetime64[ns] baseline.",
         "Only the carriers listed in the statement; nullable pandas dtypes are out of scope."),
 "C16": ("exploration", "history relation: (loose, strict) pairs, per-index severity never decreases",
         "Strict parameter sets are derived from loose ones by the statement's order for every thresholded test; recorded pairs are compared per index.",
         "Pairs that the function rejects (suspect outside fail) are skipped."),
 "C17": ("exploration", "history relation: transformed-input pairs and single-point perturbations",
         "Dyadic series under offsets, negation, time shifts, joint shifts, reversal; and every single-point perturbation with the flags outside the stated neighbourhood required unchanged.",
         "Guard band for std-based attenuation."),
 "C18": ("fault_enumeration", "fault-injection differential: with/without failing entries on every front end",
         "Every fault kind x position x front end for small configs; survivors must equal the run where they are configured alone.",
         "Faults are the kinds the statement lists; raising probe covers 8 exception types."),
 "C19": ("exploration", "runtime monitor: frame model (names, rows, filters, roll-up) on real PandasStore saves",
         "Real stream runs with hostile stream ids saved under all write_data/write_axes combinations and include/exclude lists; every column decodes to the right rows.",
         "Collision of CF-safe names between distinct stream ids is a recorded finding."),
 "C20": ("exploration", "exact-rational evaluator oracle + stack-discipline hook on fx_parser.exprStack + synthetic climatology statistics",
         "Grammar-generated expressions inside random histories (valid, parse failures, invalid identifiers, validator rejections); synthetic NetCDF-3 climatologies for create_config.",
         "Operands are dyadic so arithmetic is exact; NetCDF-3 only."),
}

def main():
    checks, na = [], []
    props = [json.loads(l) for l in open(ROOT / "properties.jsonl")]
    for p in props:
        pid = p["id"]
        if (ROOT / "vfw" / "checks" / f"{pid.lower()}.py").exists() and pid in TABLE:
            cat, tech, text, note = TABLE[pid]
            checks.append({
                "property_id": pid,
                "quick_cmd": f"./vf check {pid} --tier quick",
                "thorough_cmd": f"./vf check {pid} --tier thorough",
                "evidence_file": f"/verif/evidence/{pid}.json",
                "replay_cmd_template": "./vf replay {path}",
                "engine": "vfw",
                "level_claimed": {"category": cat, "text": text, "design_ref": f"DESIGN.md §4 {pid}"},
                "level_note": note,
                "technique": tech,
            })
        else:
            na.append({"property_id": pid, "reason": "check not built yet (work in progress; planned per DESIGN.md §4)"})
    kf = json.loads((ROOT / "known_findings.json").read_text())
    fixes = [f["commit"] for f in kf["findings"] if f.get("status") == "fixed" and f.get("commit")]
    m = {
        "version": 1,
        "setup_cmd": "./vf setup",
        "hooks": {
            "guard": "IOOS_QC_VERIF",
            "enable": "no in-repository hooks: monitors wrap module attributes and register probe tests from outside at run time (vfw/contracts.py, vfw/probes.py); IOOS_QC_VERIF is reserved",
            "baseline_off_cmd": "cd /repo && /venv/bin/python -m pytest -ra -q -p no:cacheprovider --timeout=900 --continue-on-collection-errors",
            "source_commits": [],
            "add_only": True,
        },
        "engines": [{"name": "vfw", "path": "/verif/vfw", "serves_properties": [c["property_id"] for c in checks],
                     "kind_free_text": "runtime monitoring: boundary client, icontract contracts on the real functions, reference-model and history-relation oracles, probe test functions, sys.monitoring anchor coverage, valgrind memcheck"}],
        "checks": checks,
        "notes": "fix: commits in /repo: " + ", ".join(sorted(set(fixes))) if fixes else "",
        "not_applicable": na,
    }
    (ROOT / "MANIFEST.json").write_text(json.dumps(m, indent=1) + "\n")
    import jsonschema
    jsonschema.validate(m, json.load(open("/root/.vp/MANIFEST.schema.json")))
    print("MANIFEST ok:", len(checks), "checks,", len(na), "not_applicable")
main()
