#!/venv/bin/python
"""tools/kf.py fixed <Dn> <prop[,prop]> <commit> <what failed>   |   tools/kf.py open <Dn> <prop> <what> -- <mechanism>"""
import json, sys
from pathlib import Path
p = Path(__file__).resolve().parent.parent / "known_findings.json"
d = json.loads(p.read_text())
kind, fid, props = sys.argv[1:4]
for prop in props.split(","):
    if kind == "fixed":
        commit, what = sys.argv[4], " ".join(sys.argv[5:])
        e = {"id": fid, "property": prop, "status": "fixed", "commit": commit, "what": what,
             "line": f"fixed: property={prop} {commit} {what}"}
    else:
        rest = sys.argv[4:]
        i = rest.index("--")
        what, mech = " ".join(rest[:i]), " ".join(rest[i+1:])
        e = {"id": fid, "property": prop, "status": "open", "what": what, "mechanism": mech}
    d["findings"] = [f for f in d["findings"] if not (f["id"] == fid and f["property"] == prop)] + [e]
p.write_text(json.dumps(d, indent=1) + "\n")
print("ok", len(d["findings"]))
