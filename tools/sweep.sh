#!/bin/bash
# tools/sweep.sh <tier> "<seeds>" [checks...]  -> prints one line per (check, seed); non-held ones are marked
cd "$(dirname "$0")/.."
tier=${1:-quick}; seeds=${2:-"0 1 2 3 7 42 1234"}; shift 2
checks=${@:-$(ls vfw/checks | grep -o 'c[0-9][0-9]' | tr a-z A-Z | sort -u)}
mkdir -p out/sweep
par=${SWEEP_PAR:-3}
for s in $seeds; do for c in $checks; do echo "$c $s"; done; done | xargs -P $par -L 1 bash -c '
  c=$0; s=$1; VERIF_SEED=$s ./vf check $c --tier '"$tier"' > out/sweep/$c.$s.'"$tier"'.log 2>&1; rc=$?
  line=$(grep "verdict=" out/sweep/$c.$s.'"$tier"'.log | head -1)
  if [ $rc -ne 0 ]; then echo "!! rc=$rc $line"; grep -E "VIOLATION|INCONCLUSIVE" out/sweep/$c.$s.'"$tier"'.log | head -5; else echo "ok $line"; fi'
