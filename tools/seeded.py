#!/venv/bin/python
"""tools/seeded.py import <out-dir> <PID> [extra checks]  : confirm a sub-agent's mutations (demo passes clean / fails
mutated, baseline tests pass) in a scratch worktree, run the property's quick check (+extras) on it, and keep confirmed
ones under seeded/<PID>-<letter>-<slug>/ (patch.diff, demo.py, meta.json).
tools/seeded.py rerun [name-substr] [--tier T] : re-run the recorded checks for kept mutants and refresh results."""
import json, subprocess, sys, shutil, re
from pathlib import Path
ROOT = Path(__file__).resolve().parent.parent
SEEDED = ROOT / "seeded"

def mutant(patch, demo, checks, tests=True, tier="quick"):
    cmd = [str(ROOT / "tools" / "mutant.py"), str(patch), "--checks", ",".join(checks), "--tier", tier, "--name", re.sub(r"\W+", "_", str(patch))[-40:]]
    if demo: cmd += ["--demo", str(demo)]
    if tests: cmd += ["--tests"]
    r = subprocess.run(cmd, capture_output=True, text=True)
    try:
        return json.loads(r.stdout)
    except Exception:
        return {"error": r.stdout[-500:] + r.stderr[-500:]}

if sys.argv[1] == "import":
    out, pid = Path(sys.argv[2]), sys.argv[3]
    extra = sys.argv[4:]
    for letter in sorted({f.stem[-1] for f in out.glob("patch?.diff")}):
        p, d, m = out / f"patch{letter}.diff", out / f"demo{letter}.py", out / f"meta{letter}.json"
        if not p.exists():
            print(pid, letter, "missing patch"); continue
        meta = json.loads(m.read_text()) if m.exists() else {}
        res = mutant(p, d if d.exists() else None, [pid, *extra])
        ok = res.get("applies") and res.get("demo_clean_rc") == 0 and res.get("demo_mutant_rc", 0) != 0 and res.get("tests_pass")
        killed = [c for c, v in res.get("checks", {}).items() if v["rc"] == 1]
        print(f"{pid}{letter}: confirmed={bool(ok)} killed_by={killed} :: {meta.get('summary', '')[:110]}")
        if not ok:
            print("   not kept:", {k: res.get(k) for k in ("applies", "apply_error", "demo_clean_rc", "demo_mutant_rc", "tests_pass", "tests_tail", "error")})
            continue
        dest = SEEDED / f"{pid}-{letter}"
        dest.mkdir(parents=True, exist_ok=True)
        shutil.copy(p, dest / "patch.diff")
        if d.exists(): shutil.copy(d, dest / "demo.py")
        meta.update({"property": pid, "origin": "independent sub-agent given only the property text and a scratch worktree",
                     "confirmed": {"demo_on_clean_tree_rc": res["demo_clean_rc"], "demo_on_mutated_tree_rc": res["demo_mutant_rc"],
                                   "baseline_tests_on_mutated_tree": res.get("tests_tail")},
                     "what_i_ran": f"tools/mutant.py seeded/{pid}-{letter}/patch.diff --demo seeded/{pid}-{letter}/demo.py --tests --checks {','.join([pid, *extra])}",
                     "checks": res["checks"], "caught_by": killed})
        (dest / "meta.json").write_text(json.dumps(meta, indent=1))
elif sys.argv[1] == "rerun":
    args = [a for a in sys.argv[2:] if not a.startswith("--")]
    tier = "thorough" if "--thorough" in sys.argv else "quick"
    allchecks = "--all" in sys.argv
    for dest in sorted(SEEDED.iterdir()):
        if args and not any(a in dest.name for a in args): continue
        meta = json.loads((dest / "meta.json").read_text())
        also = [c for a in sys.argv if a.startswith("--also=") for c in a[7:].split(",") if c]  # further checks expected to see it
        checks = [f"C{i:02d}" for i in range(1, 21)] if allchecks else sorted(set(list(meta.get("checks", {})) + [meta["property"]] + also))
        res = mutant(dest / "patch.diff", None, checks, tests=False, tier=tier)
        if "checks" not in res:
            print(dest.name, "ERROR", res); continue
        killed = [c for c, v in res["checks"].items() if v["rc"] == 1]
        if allchecks:
            meta["all_checks_" + tier] = {c: v["rc"] for c, v in res["checks"].items()}
        else:
            meta["checks"] = res["checks"] if tier == "quick" else meta.get("checks"); meta["caught_by"] = killed if tier == "quick" else meta.get("caught_by")
            if tier != "quick": meta["checks_thorough"] = res["checks"]
        (dest / "meta.json").write_text(json.dumps(meta, indent=1))
        print(f"{dest.name}: killed_by={killed}  " + " ".join(f"{c}:rc{v['rc']}" for c, v in res["checks"].items()))
