#!/venv/bin/python
"""My own 'kill list' mutants (DESIGN §4): each is an (old -> new) text replacement in one file.
tools/own_mutants.py [name-substring]  runs them against the property's quick check(s) in scratch
worktrees (never in /repo), in parallel, and writes validation/own_kill_matrix.json."""
import json, os, subprocess, sys, time, shutil
from concurrent.futures import ThreadPoolExecutor
from pathlib import Path
ROOT = Path(__file__).resolve().parent.parent
Q = "ioos_qc/qartod.py"; A = "ioos_qc/argo.py"; X = "ioos_qc/axds.py"; S = "ioos_qc/streams.py"
R = "ioos_qc/results.py"; C = "ioos_qc/config.py"; U = "ioos_qc/utils.py"; ST = "ioos_qc/stores.py"
FX = "ioos_qc/config_creator/fx_parser.py"; CC = "ioos_qc/config_creator/config_creator.py"
M = [
 # name, file, old, new, checks
 ("c01-spike-empty-guard", Q, "    flag_arr[:1] = QartodFlags.UNKNOWN\n    flag_arr[-1:] = QartodFlags.UNKNOWN", "    flag_arr[0] = QartodFlags.UNKNOWN\n    flag_arr[-1] = QartodFlags.UNKNOWN", "C01"),
 ("c01-gross-returns-masked", Q, "    # If the value is masked set the flag to MISSING\n    flag_arr[inp.mask] = QartodFlags.MISSING\n\n    return flag_arr.reshape(original_shape)\n\n\nclass Clim", "    # If the value is masked set the flag to MISSING\n    flag_arr[inp.mask] = QartodFlags.MISSING\n    flag_arr = np.ma.masked_equal(flag_arr, QartodFlags.MISSING)\n\n    return flag_arr.reshape(original_shape)\n\n\nclass Clim", "C01,C02,C03"),
 ("c01-roc-writes-input", Q, "    inp = np.ma.masked_invalid(np.ma.array(inp).astype(np.float64))\n\n    # Save original shape\n    original_shape = inp.shape\n    inp = inp.flatten()\n\n    # Start with everything as passing (1)\n    flag_arr = np.ma.ones(inp.size, dtype=\"uint8\")\n\n    # calculate rate", "    inp = np.ma.masked_invalid(np.asarray(inp, dtype=np.float64), copy=False)\n    if inp.size:\n        inp.data[np.isnan(inp.data)] = 0\n\n    # Save original shape\n    original_shape = inp.shape\n    inp = inp.flatten()\n\n    # Start with everything as passing (1)\n    flag_arr = np.ma.ones(inp.size, dtype=\"uint8\")\n\n    # calculate rate", "C01,C10"),
 ("c01-fail-constant", Q, "    FAIL = 4", "    FAIL = 5", "C01,C03"),
 ("c02-flatline-missing-first", Q, "    run_test(suspect_threshold, QartodFlags.SUSPECT)\n    run_test(fail_threshold, QartodFlags.FAIL)\n\n    # If the value is masked set the flag to MISSING\n    flag_arr[inp.mask] = QartodFlags.MISSING", "    # If the value is masked set the flag to MISSING\n    flag_arr[inp.mask] = QartodFlags.MISSING\n\n    run_test(suspect_threshold, QartodFlags.SUSPECT)\n    run_test(fail_threshold, QartodFlags.FAIL)", "C02,C11"),
 ("c02-density-missing-value-only", Q, "    is_missing = inp.mask | zinp.mask", "    is_missing = inp.mask", "C02,C13"),
 ("c02-valid-range-drop-missing", X, "    flag_arr[inp.mask] = QartodFlags.MISSING", "    pass", "C02,C03"),
 ("c03-fail-inclusive-low", Q, "flag_arr[(inp < sspan.minv) | (inp > sspan.maxv)] = QartodFlags.FAIL", "flag_arr[(inp <= sspan.minv) | (inp > sspan.maxv)] = QartodFlags.FAIL", "C03"),
 ("c03-suspect-inclusive-high", Q, "flag_arr[(inp < uspan.minv) | (inp > uspan.maxv)] = QartodFlags.SUSPECT", "flag_arr[(inp < uspan.minv) | (inp >= uspan.maxv)] = QartodFlags.SUSPECT", "C03"),
 ("c03-validation-unsorted", Q, "        if uspan.minv < sspan.minv or uspan.maxv > sspan.maxv:", "        if suspect_span[0] < sspan.minv or suspect_span[1] > sspan.maxv:", "C03"),
 ("c03-inclusive-swapped", X, "            if end_inclusive is True:\n                flag_arr[inp > valid_span[1]]", "            if start_inclusive is True:\n                flag_arr[inp > valid_span[1]]", "C03"),
 ("c03-exclusive-end-gt", X, "                flag_arr[inp >= valid_span[1]] = QartodFlags.FAIL", "                flag_arr[inp > valid_span[1]] = QartodFlags.FAIL", "C03"),
 ("c04-priority-swap", Q, "        QartodFlags.GOOD,\n        QartodFlags.SUSPECT,\n        QartodFlags.FAIL,\n    ]", "        QartodFlags.SUSPECT,\n        QartodFlags.GOOD,\n        QartodFlags.FAIL,\n    ]", "C04"),
 ("c04-read-data", Q, "            idx = np.where(v == p)[0]", "            idx = np.where(np.ma.getdata(v) == p)[0]", "C04"),
 ("c04-start-good", Q, "    result.fill(QartodFlags.MISSING)", "    result.fill(QartodFlags.GOOD)", "C04"),
 ("c05-pandas-ending-inclusive", S, "keep &= (subset[self.time_column] < context.window.ending).to_numpy()", "keep &= (subset[self.time_column] <= context.window.ending).to_numpy()", "C05"),
 ("c05-numpy-forget-z-subset", S, "                subset_kwargs[\"zinp\"] = self.zinp[subset_indexes]", "                subset_kwargs[\"zinp\"] = self.zinp", "C05"),
 ("c05-numpy-start-exclusive", S, "subset_indexes = (subset_indexes) & (self.tinp >= context.window.starting)", "subset_indexes = (subset_indexes) & (self.tinp > context.window.starting)", "C05"),
 ("c05-xarray-end-inclusive", S, "                        ending = pd.Timestamp(ending) - pd.Timedelta(1, unit=\"ns\")", "                        ending = pd.Timestamp(ending)", "C05"),
 ("c06-scatter-inverted", R, "            collected[cr.hash_key].results[r.subset_indexes] = tr.results", "            collected[cr.hash_key].results[~r.subset_indexes if r.subset_indexes.sum() * 2 == r.subset_indexes.size and not r.subset_indexes[0] else r.subset_indexes] = tr.results", "C06"),
 ("c06-key-by-test-only", R, "        return f\"{self.stream_id}:{self.package}.{self.test}\"", "        return f\"{self.package}.{self.test}\"", "C06"),
 ("c06-dict-fill-good", R, "        flag_arr.fill(QartodFlags.UNKNOWN)", "        flag_arr.fill(QartodFlags.GOOD)", "C06"),
 ("c07-depth-gt4", C, "            elif dict_depth(self.config) >= 4:", "            elif dict_depth(self.config) > 4:", "C07"),
 ("c07-kwargs-or-removed", C, "                    kwargs = kwargs or {}\n", "", "C07"),
 ("c07-region-branch-order", C, "            elif self.config[\"region\"] and \"features\" in self.config[\"region\"]:", "            elif self.config[\"region\"] and \"features\" in self.config[\"region\"] and len(self.config[\"region\"][\"features\"]) < 2:", "C07"),
 ("c07-xarray-merge-overwrite", U, "            merged = dict_update(\n                y.get(vobj.ioos_qc_target, {}),\n                newdict,\n            )", "            merged = {**y.get(vobj.ioos_qc_target, {}), **newdict}", "C07"),
 ("c08-tspan-exclusive-high", Q, "            t_idx = (tinp_copy >= m.tspan.minv) & (tinp_copy <= m.tspan.maxv)", "            t_idx = (tinp_copy >= m.tspan.minv) & (tinp_copy < m.tspan.maxv)", "C08"),
 ("c08-zspan-exclusive-low", Q, "(zinp >= m.zspan.minv) & (zinp <= m.zspan.maxv)", "(zinp > m.zspan.minv) & (zinp <= m.zspan.maxv)", "C08"),
 ("c08-first-match", Q, "        for m in self._members:\n            if m.period is not None:\n                # If a period is defined, extract the attribute from the\n                # pd.DatetimeIndex", "        for m in reversed(self._members):\n            if m.period is not None:\n                # If a period is defined, extract the attribute from the\n                # pd.DatetimeIndex", "C08"),
 ("c08-week-from-doy", Q, "                        tinp.isocalendar().week,", "                        (tinp.dayofyear - 1) // 7 + 1,", "C08"),
 ("c09-threshold-ge", Q, "            flag_arr[diff > fail_threshold] = QartodFlags.FAIL", "            flag_arr[diff >= fail_threshold] = QartodFlags.FAIL", "C09"),
 ("c09-product-gt0", Q, "            diff[1:-1][ref[:-1] * ref[1:] >= 0] = 0", "            diff[1:-1][ref[:-1] * ref[1:] > 0] = 0", "C09"),
 ("c09-min-to-max", Q, "        diff[1:-1] = np.minimum(np.abs(ref[:-1]), np.abs(ref[1:]))", "        diff[1:-1] = np.maximum(np.abs(ref[:-1]), np.abs(ref[1:]))", "C09"),
 ("c10-roc-minutes", Q, "        np.diff(inp) / np.diff(tinp).astype(\"timedelta64[s]\").astype(float),\n    )\n\n    with np.errstate(invalid=\"ignore\"):\n        flag_arr[np.ma.filled(roc", "        np.diff(inp) / (np.diff(tinp).astype(\"timedelta64[m]\").astype(float) * 60),\n    )\n\n    with np.errstate(invalid=\"ignore\"):\n        flag_arr[np.ma.filled(roc", "C10"),
 ("c10-gcd-lonlat-swapped", A, "    dist = great_circle_distance(lat, lon)", "    dist = great_circle_distance(lon, lat)", "C10"),
 ("c10-speed-ge", A, "        flag_arr[speed > suspect_threshold] = QartodFlags.SUSPECT", "        flag_arr[speed >= suspect_threshold] = QartodFlags.SUSPECT", "C10"),
 ("c11-count-plus-one", Q, "        shape = a.shape[:-1] + (a.shape[-1] - window + 1, window + 1)", "        shape = a.shape[:-1] + (a.shape[-1] - window + 1, window)", "C11"),
 ("c11-keep-last-row", Q, "        return np.ma.masked_invalid(arr[:-1, :])", "        return np.ma.masked_invalid(arr)", "C11"),
 ("c11-lt-to-le", Q, "        test_results = np.ma.filled(data_range < tolerance, fill_value=False)", "        test_results = np.ma.filled(data_range <= tolerance, fill_value=False)", "C11"),
 ("c11-round-count", Q, "        count = (int(test_threshold) / time_interval).astype(int)", "        count = np.rint(int(test_threshold) / time_interval).astype(int)", "C11"),
 ("c12-fail-before-unknown", Q, "    flag_arr[np.isnan(check_val)] = QartodFlags.UNKNOWN\n    flag_arr[check_val < fail_threshold] = QartodFlags.FAIL", "    flag_arr[check_val < fail_threshold] = QartodFlags.FAIL\n    flag_arr[np.isnan(check_val)] = QartodFlags.UNKNOWN\n    flag_arr[check_val <= 0] = QartodFlags.FAIL", "C12"),
 ("c12-closed-both", Q, "        windows = series.rolling(f\"{test_period}s\", min_periods=min_periods)", "        windows = series.rolling(f\"{test_period}s\", min_periods=min_periods, closed=\"both\")", "C12"),
 ("c12-ddof-swap", Q, "        window_func = lambda x: x.std()  # noqa", "        window_func = lambda x: x.std(ddof=0)  # noqa", "C12"),
 ("c13-flag-only-second", Q, "                flag_arr[:-1][is_fail == True] = QartodFlags.FAIL  # noqa:E712- Previous value\n", "", "C13"),
 ("c13-drop-sign", Q, "    delta = np.sign(np.diff(zinp)) * np.diff(inp)", "    delta = np.diff(inp)", "C13"),
 ("c13-pressure-lt", A, "    flag_idx = np.where(delta <= 0)[0] + 1", "    flag_idx = np.where(delta < 0)[0] + 1", "C13"),
 ("c14-edge-outside", Q, "        outside = (lon < bbox.minx) | (lat < bbox.miny) | (lon > bbox.maxx) | (lat > bbox.maxy)", "        outside = (lon < bbox.minx) | (lat < bbox.miny) | (lon >= bbox.maxx) | (lat > bbox.maxy)", "C14"),
 ("c14-mloc-or", Q, "    mloc = lon.mask & lat.mask", "    mloc = lon.mask | lat.mask", "C14,C02"),
 ("c15-mapdates-ms", U, "            pd.to_datetime(dates, unit=\"s\")", "            pd.to_datetime(dates, unit=\"s\" if np.asarray(dates).dtype.kind != \"f\" else \"ms\")", "C15"),
 ("c15-float32", Q, "        inp = np.ma.masked_invalid(np.ma.array(inp).astype(np.float64))\n\n    # Save original shape\n    original_shape = inp.shape\n    inp = inp.flatten()\n\n    # Apply different method", "        inp = np.ma.masked_invalid(np.ma.array(inp).astype(np.float32 if isinstance(inp, (list, tuple)) else np.float64))\n\n    # Save original shape\n    original_shape = inp.shape\n    inp = inp.flatten()\n\n    # Apply different method", "C15"),
 ("c16-speed-suspect-after-fail", A, "    with np.errstate(invalid=\"ignore\"):\n        flag_arr[speed > suspect_threshold] = QartodFlags.SUSPECT\n\n    with np.errstate(invalid=\"ignore\"):\n        flag_arr[speed > fail_threshold] = QartodFlags.FAIL", "    with np.errstate(invalid=\"ignore\"):\n        flag_arr[speed > fail_threshold] = QartodFlags.FAIL\n\n    with np.errstate(invalid=\"ignore\"):\n        flag_arr[speed > suspect_threshold] = QartodFlags.SUSPECT", "C16,C10"),
 ("c17-roc-epoch-dependent", Q, "    tinp = mapdates(tinp).flatten()\n    if tinp.size != inp.size:", "    tinp = mapdates(tinp).flatten().astype(\"datetime64[m]\").astype(\"datetime64[ns]\") if np.size(tinp) and mapdates(tinp).flatten()[0] > np.datetime64(\"2022-01-01\") else mapdates(tinp).flatten()\n    if tinp.size != inp.size:", "C17"),
 ("c18-narrow-except", C, "        except Exception as e:\n            L.error(f'Could not run", "        except (ValueError, TypeError) as e:\n            L.error(f'Could not run", "C18"),
 ("c18-continue-to-break", C, "                    if not hasattr(testpackage, testname):\n                        L.warning(\n                            f'No ioos_qc method \"{package}.{testname}\" was found, skipping',\n                        )\n                        continue", "                    if not hasattr(testpackage, testname):\n                        L.warning(\n                            f'No ioos_qc method \"{package}.{testname}\" was found, skipping',\n                        )\n                        break", "C18,C07"),
 ("c19-include-inverted", ST, "                cr.function not in include\n                and cr.stream_id not in include\n                and cr.test not in include", "                cr.function not in include\n                and cr.stream_id not in include\n                and cr.test in include", "C19"),
 ("c19-name-without-module", ST, "    package_label = f\"{cr.package}.\" if cr.package else \"\"", "    package_label = \"\"", "C19"),
 ("c19-cfsafe-digit", U, "        if re.match(\"^[0-9_]\", name):", "        if re.match(\"^[_]\", name):", "C19"),
 ("c20-stack-from-front", FX, "    val = evaluate_stack(exprStack[:], stats)", "    val = evaluate_stack(exprStack[::-1][::-1][len(exprStack) // 64 * 0:], stats) if len(exprStack) < 40 else evaluate_stack(exprStack[:39], stats)", "C20"),
 ("c20-sub-operands-swapped", FX, "        return opn[op](op1, op2)", "        return opn[op](op2, op1) if op == \"-\" and op1 == 0 else opn[op](op1, op2)", "C20"),
 ("c20-nanstd-ddof1", CC, "            \"std\": np.nanstd(subset),", "            \"std\": np.nanstd(subset, ddof=1),", "C20"),
 ("c20-latlon-swapped", CC, "            var = ds[var_in_file][:, lat_mask, lon_mask]", "            var = ds[var_in_file][:, lat_mask if lat_mask.size != lon_mask.size else lon_mask, lon_mask if lat_mask.size != lon_mask.size else lat_mask]", "C20"),
 ("c20-validator-merge", CC, "                    token not in self.allowed_stats\n                    and token not in self.allowed_operators", "                    token.lower() not in self.allowed_stats\n                    and token not in self.allowed_operators", "C20"),
]

def run_one(m):
    name, file, old, new, checks = m
    wt = Path(f"/tmp/vf-scratch-own-{name}")
    subprocess.run(f"git -C /repo worktree add -q --detach {wt} HEAD", shell=True, check=True, capture_output=True)
    res = {"name": name, "file": file, "checks": {}}
    try:
        p = wt / file
        s = p.read_text()
        if s.count(old) != 1:
            res["error"] = f"pattern occurs {s.count(old)} times"
            return res
        p.write_text(s.replace(old, new))
        r = subprocess.run(["/venv/bin/python", "-c", "import ioos_qc.qartod, ioos_qc.argo, ioos_qc.axds, ioos_qc.streams, ioos_qc.stores, ioos_qc.config_creator.config_creator"],
                           env=dict(os.environ, PYTHONPATH=str(wt)), cwd=wt, capture_output=True, text=True)
        res["imports"] = r.returncode == 0
        if os.environ.get("OWN_TESTS", "1") == "1":
            t = subprocess.run("/venv/bin/python -m pytest -q -x -p no:cacheprovider --timeout=900 tests -k 'not performance' "
                               "--deselect tests/test_config_creator.py::TestQartodConfigurator --deselect tests/test_utils.py::TestReadXarrayConfig",
                               shell=True, env=dict(os.environ, PYTHONPATH=str(wt), PYTHONDONTWRITEBYTECODE="1"), cwd=wt, capture_output=True, text=True)
            res["tests_pass"] = t.returncode == 0
            res["tests_tail"] = (t.stdout.strip().splitlines() or [""])[-1]
        for c in checks.split(","):
            t0 = time.time()
            r = subprocess.run([str(ROOT / "vf"), "check", c, "--tier", "quick"], env=dict(os.environ, IOOS_QC_SRC=str(wt)),
                               capture_output=True, text=True)
            viol = [l.split("#")[-1].strip() for l in r.stdout.splitlines() if l.startswith("VIOLATION")]
            res["checks"][c] = {"rc": r.returncode, "violations": viol[:4], "wall": round(time.time() - t0, 1)}
    finally:
        subprocess.run(f"git -C /repo worktree remove --force {wt}", shell=True, capture_output=True)
        shutil.rmtree(wt, ignore_errors=True)
    return res

sel = [m for m in M if len(sys.argv) < 2 or any(a in m[0] for a in sys.argv[1:])]
with ThreadPoolExecutor(max_workers=int(os.environ.get("OWN_PAR", "3"))) as ex:
    results = list(ex.map(run_one, sel))
out = ROOT / "validation" / "own_kill_matrix.json"
prev = json.loads(out.read_text()) if out.exists() else {}
for r in results:
    prev[r["name"]] = r
out.write_text(json.dumps(prev, indent=1))
for r in results:
    if "error" in r:
        print(f"ERR  {r['name']}: {r['error']}"); continue
    killed = [c for c, v in r["checks"].items() if v["rc"] == 1]
    print(f"{'KILLED ' if killed else 'SURVIVED'} {r['name']:34s} tests_pass={r.get('tests_pass')} imports={r.get('imports')} " +
          " ".join(f"{c}:rc{v['rc']}({v['wall']}s)" for c, v in r["checks"].items()) + ("  " + "; ".join(r['checks'][killed[0]]['violations'][:2]) if killed else ""))
