"""Compact workloads run under valgrind: python -m vfw.memcheck_workload flat_line|all"""
import sys

from vfw import core

core.import_target()
import numpy as np  # noqa: E402
from ioos_qc import argo, axds, qartod  # noqa: E402

which = sys.argv[1]
calls = 0


def c(fn, *a, **k):
    """memcheck only cares about native memory errors; Python exceptions are C01's business"""
    global calls
    calls += 1
    try:
        return fn(*a, **k)
    except Exception:  # noqa: BLE001
        return None

nan = float("nan")


def t(n, d=60):
    return (np.arange(n) * d + 1614556800).astype("datetime64[s]").astype("datetime64[ns]")


for n in (0, 1, 2, 3, 4, 5, 7, 10):
    x = np.array([5.0 + (k % 2) * 0.25 if 1 <= k <= 4 else float(k) for k in range(n)])
    if n > 3:
        x[2] = nan
    for st, ft in ((0, 60), (60, 120), (120, 180), (174, (n - 1) * 60), (n * 60, (n + 3) * 60)):
        c(qartod.flat_line_test, x, t(n), st, max(ft, 0), 0.5)
if which == "all":
    for n in (0, 1, 2, 3, 6):
        x = np.array([1.0, nan, 3.0, 2.5, 9.0, 2.0][:n])
        z = np.array([0.0, 1.0, 2.0, nan, 4.0, 5.0][:n])
        lon = np.array([10.0, 10.5, nan, 11.0, 179.5, -179.5][:n])
        lat = np.array([50.0, nan, nan, 50.5, 51.0, 51.5][:n])
        c(qartod.gross_range_test, x, [0, 5], [1, 4])
        c(qartod.location_test, lon, lat, bbox=[0, 40, 180, 60], range_max=1000.0)
        c(qartod.spike_test, x, 1, 2)
        c(qartod.spike_test, x, 1, 2, method="differential")
        c(qartod.rate_of_change_test, x, t(n), 0.01)
        c(qartod.attenuated_signal_test, x, t(n), 0.5, 0.1)
        c(qartod.attenuated_signal_test, x, t(n), 0.5, 0.1, check_type="range")
        c(qartod.attenuated_signal_test, x, t(n), 0.5, 0.1, test_period=150, min_obs=2)
        c(qartod.density_inversion_test, x, z, 0.5, 1.5)
        c(qartod.climatology_test, [{"tspan": [0, 12], "period": "month", "vspan": [1, 3], "fspan": [0, 8], "zspan": [0, 3]}],
          x, t(n), z)
        c(argo.speed_test, lon, lat, t(n), 1, 100)
        c(argo.pressure_increasing_test, np.nan_to_num(z))
        c(axds.valid_range_test, x, (1, 4))
        if n:
            c(qartod.qartod_compare, [qartod.spike_test(x, 1, 2), qartod.gross_range_test(x, [0, 5])])
print(f"MEMCHECK-WORKLOAD calls={calls}")
