"""State hooks installed from outside the repository (DESIGN §2.1 'State hooks')."""
from __future__ import annotations

import contextlib

import numpy as np


def _bounds(a):
    a = np.asarray(a.data) if isinstance(a, np.ma.MaskedArray) else np.asarray(a)
    return np.byte_bounds(a)


class BoundsMonitor:
    """While active, every strided view created with as_strided is remembered together with the
    byte bounds of the buffer it was made from; every array derived from such a view that is
    handed to masked_invalid / min / max / abs (i.e. is about to be *read*) must lie inside them."""

    def __init__(self) -> None:
        self.views = []  # (strided array, (lo, hi) of base)
        self.formed = 0
        self.formed_oob = 0  # views whose extent exceeds the base (legal as long as never read)
        self.materialised = 0
        self.violations = []

    def _check(self, arg, where) -> None:
        if not isinstance(arg, np.ndarray) or arg.size == 0:
            return
        a = np.asarray(arg.data) if isinstance(arg, np.ma.MaskedArray) else arg
        node, owner = a, None
        for _ in range(8):
            for v, b in self.views:
                if node is v:
                    owner = b
            if owner is not None or node is None:
                break
            node = getattr(node, "base", None)
        if owner is None:
            return
        self.materialised += 1
        lo, hi = np.byte_bounds(a)
        if lo < owner[0] or hi > owner[1]:
            self.violations.append({"where": where, "view_bytes": [int(lo - owner[0]), int(hi - owner[0])],
                                    "base_bytes": [0, int(owner[1] - owner[0])], "shape": list(a.shape)})

    @contextlib.contextmanager
    def active(self):
        st = np.lib.stride_tricks
        orig = {"as_strided": st.as_strided, "masked_invalid": np.ma.masked_invalid, "min": np.min, "max": np.max}
        mon = self

        def as_strided(x, shape=None, strides=None, **kw):
            r = orig["as_strided"](x, shape=shape, strides=strides, **kw)
            b = _bounds(x)
            mon.views.append((r, b))
            mon.formed += 1
            if r.size:
                lo, hi = np.byte_bounds(r)
                if lo < b[0] or hi > b[1]:
                    mon.formed_oob += 1
            return r

        def masked_invalid(a, *args, **kw):
            mon._check(a, "masked_invalid")
            return orig["masked_invalid"](a, *args, **kw)

        def vmin(a, *args, **kw):
            mon._check(a, "min")
            return orig["min"](a, *args, **kw)

        def vmax(a, *args, **kw):
            mon._check(a, "max")
            return orig["max"](a, *args, **kw)

        st.as_strided, np.ma.masked_invalid, np.min, np.max = as_strided, masked_invalid, vmin, vmax
        try:
            yield self
        finally:
            st.as_strided, np.ma.masked_invalid = orig["as_strided"], orig["masked_invalid"]
            np.min, np.max = orig["min"], orig["max"]
            self.views.clear()
