"""Predicates that decide whether a violation witness is an instance of a *listed* known
finding (known_findings.json).  Keyed by finding id; each predicate looks only at the
mechanism (violation class + structural facts in the witness), never at random values.
A finding with status "fixed" suppresses nothing."""
from __future__ import annotations

PREDICATES = {}


def predicate(fid):
    def deco(fn):
        PREDICATES[fid] = fn
        return fn
    return deco
