"""Predicates that decide whether a violation witness is an instance of a *listed* known
finding (known_findings.json).  Keyed by finding id; each predicate looks only at the
mechanism (violation class + structural facts in the witness), never at random values.
A finding with status "fixed" suppresses nothing."""
from __future__ import annotations

PREDICATES = {}


def predicate(fid):
    def deco(fn):
        PREDICATES[fid] = fn
        return fn
    return deco


@predicate("D18")
def d18(cls, w):
    """C19: distinct (stream id, module, test) results whose CF-safe column names coincide."""
    return cls in ("C19:result-column-values", "C19:result-column-missing", "C19:result-column-ambiguous") and bool(
        w.get("colliding_results"))


@predicate("D19")
def d19(cls, w):
    """C07: bare stream mapping whose tests all have null parameters is taken for a module mapping."""
    return (cls.startswith("C07:bare-streams:") and cls.endswith(":call-set-differs") and w.get("all_params_null") is True
            and w.get("n_observed") == 0)


@predicate("D20")
def d20(cls, w):
    """C20: create_config treats an in-box subset whose values sum to exactly 0 as 'no data' and widens the box."""
    return cls == "C20:create_config:spans-differ-from-in-box-statistics" and w.get("in_box_sum") == 0.0
