"""Core of the runtime-monitoring framework: environment, run context,
verdicts, replay files, evidence, known findings, line coverage, shards.

Nothing here knows about a particular property; the drivers in vfw/checks do.
"""
from __future__ import annotations

import datetime as _dt
import hashlib
import json
import math
import os
import random
import re
import subprocess
import sys
import time
from collections import Counter
from pathlib import Path

ROOT = Path(__file__).resolve().parent.parent
OUT = ROOT / "out"
EVID = ROOT / "evidence"
DEPS = ROOT / ".deps"
SRC = Path(os.environ.get("IOOS_QC_SRC", "/repo")).resolve()
WHEELS = "/opt/veriftools/wheels"

GOOD, UNKNOWN, SUSPECT, FAIL, MISSING = 1, 2, 3, 4, 9
ALPHABET = (1, 2, 3, 4, 9)
FLAGNAME = {1: "GOOD", 2: "UNKNOWN", 3: "SUSPECT", 4: "FAIL", 9: "MISSING"}


# --------------------------------------------------------------------------
# environment


def ensure_deps() -> None:
    """Install icontract/deal from the offline wheelhouse into .deps (idempotent)."""
    if (DEPS / "icontract").is_dir():
        return
    DEPS.mkdir(exist_ok=True)
    subprocess.run(
        ["/venv/bin/pip", "install", "--quiet", "--no-index", "--find-links", WHEELS,
         "--target", str(DEPS), "icontract", "deal"],
        check=False, stdout=subprocess.DEVNULL, stderr=subprocess.DEVNULL, timeout=300,
    )


def setup_paths() -> None:
    """Put the tree under test first on sys.path, .deps last (so it never shadows /venv)."""
    s = str(SRC)
    if s in sys.path:
        sys.path.remove(s)
    sys.path.insert(0, s)
    d = str(DEPS)
    if d not in sys.path:
        sys.path.append(d)


def import_target():
    """Import ioos_qc from SRC and verify that is what we got (else inconclusive)."""
    import logging
    import warnings

    warnings.simplefilter("ignore")
    setup_paths()
    import ioos_qc  # noqa: PLC0415

    f = Path(ioos_qc.__file__).resolve()
    if SRC not in f.parents:
        raise Inconclusive(f"imported ioos_qc from {f}, not under {SRC}")
    logging.disable(logging.CRITICAL)
    return ioos_qc


class Inconclusive(Exception):
    pass


# --------------------------------------------------------------------------
# JSON helpers (NaN, numpy, datetimes)


def jsonable(x, depth=0):
    import numpy as np

    if depth > 12:
        return repr(x)
    if x is None or isinstance(x, (bool, str)):
        return x
    if isinstance(x, (int,)):
        return x
    if isinstance(x, float):
        if math.isnan(x):
            return "NaN"
        if math.isinf(x):
            return "Infinity" if x > 0 else "-Infinity"
        return x
    if isinstance(x, np.ma.MaskedArray):
        return {"__ma__": jsonable(np.asarray(x.data), depth + 1),
                "mask": np.ma.getmaskarray(x).astype(int).tolist(), "dtype": str(x.dtype)}
    if isinstance(x, np.ndarray):
        if x.size > 4000:
            return {"__truncated_array__": list(x.shape), "dtype": str(x.dtype), "head": jsonable(x.reshape(-1)[:50], depth + 1),
                    "tail": jsonable(x.reshape(-1)[-50:], depth + 1)}
        if x.dtype.kind == "M":
            return {"__dt64__": [str(v) for v in x.tolist()] if x.dtype != "datetime64[ns]" else [str(v) for v in x],
                    "dtype": str(x.dtype)}
        if x.dtype.kind == "O":
            return [jsonable(v, depth + 1) for v in x.tolist()]
        return [jsonable(v, depth + 1) for v in x.tolist()]
    if isinstance(x, np.generic):
        if isinstance(x, np.datetime64):
            return str(x)
        return jsonable(x.item(), depth + 1)
    if isinstance(x, (_dt.datetime, _dt.date)):
        return x.isoformat()
    if isinstance(x, dict):
        return {str(k): jsonable(v, depth + 1) for k, v in x.items()}
    if isinstance(x, (list, tuple, set, frozenset)):
        if len(x) > 4000:
            x = list(x)
            return {"__truncated__": len(x), "head": [jsonable(v, depth + 1) for v in x[:50]],
                    "tail": [jsonable(v, depth + 1) for v in x[-50:]]}
        return [jsonable(v, depth + 1) for v in x]
    try:
        import pandas as pd

        if isinstance(x, pd.Timestamp):
            return x.isoformat()
        if isinstance(x, (pd.Series, pd.Index)):
            return {"__pandas__": type(x).__name__, "values": jsonable(x.to_numpy(), depth + 1),
                    "index": jsonable(list(getattr(x, "index", [])), depth + 1) if isinstance(x, pd.Series) else None}
    except Exception:  # noqa: BLE001
        pass
    return repr(x)


def slug(s: str) -> str:
    return re.sub(r"[^A-Za-z0-9_.-]+", "_", s)[:80]


# --------------------------------------------------------------------------
# known findings


def load_findings():
    p = ROOT / "known_findings.json"
    if not p.exists():
        return []
    return json.loads(p.read_text())["findings"]


# --------------------------------------------------------------------------
# line coverage of anchors via sys.monitoring (LINE callback returning DISABLE)


class Coverage:
    TOOL = 3

    def __init__(self) -> None:
        self.hit = set()  # (relfile, qualname, line)
        self.on = False

    def start(self) -> None:
        mon = sys.monitoring
        prefix = str(SRC / "ioos_qc")

        def cb(code, line):
            fn = code.co_filename
            if fn.startswith(prefix):
                self.hit.add((fn[len(prefix) + 1:], code.co_qualname, line))
            return mon.DISABLE

        try:
            mon.use_tool_id(self.TOOL, "vfw-cov")
        except ValueError:
            return
        mon.register_callback(self.TOOL, mon.events.LINE, cb)
        mon.set_events(self.TOOL, mon.events.LINE)
        self.on = True

    def stop(self) -> None:
        if self.on:
            mon = sys.monitoring
            mon.set_events(self.TOOL, 0)
            mon.free_tool_id(self.TOOL)
            self.on = False

    def by_function(self):
        d = {}
        for f, q, ln in self.hit:
            d.setdefault(f"{f}:{q}", set()).add(ln)
        return d


def code_lines(module, qualname):
    """All statement lines of the code object `qualname` inside `module` (for 'lines total')."""
    import types

    want = qualname

    def walk(code):
        if code.co_qualname == want:
            return code
        for c in code.co_consts:
            if isinstance(c, types.CodeType):
                r = walk(c)
                if r is not None:
                    return r
        return None

    for v in vars(module).values():
        fn = getattr(v, "__wrapped__", v)
        code = getattr(fn, "__code__", None)
        if code is not None and code.co_filename == getattr(module, "__file__", None):
            r = walk(code)
            if r is not None:
                return {ln for _, _, ln in r.co_lines() if ln is not None and ln != r.co_firstlineno}
        if isinstance(v, type) and getattr(v, "__module__", None) == module.__name__:
            for vv in vars(v).values():
                fn = getattr(vv, "__func__", vv)
                code = getattr(fn, "__code__", None)
                if code is not None:
                    r = walk(code)
                    if r is not None:
                        return {ln for _, _, ln in r.co_lines() if ln is not None and ln != r.co_firstlineno}
    return None


# --------------------------------------------------------------------------
# run context


class Ctx:
    """What one shard of one check accumulates."""

    MAX_SAMPLES = 6

    def __init__(self, pid, tier, seed, shard=0, nshards=1) -> None:
        self.pid, self.tier, self.seed = pid, tier, seed
        self.shard, self.nshards = shard, nshards
        self.rng = random.Random(f"{pid}/{seed}/{shard}")
        self.t0 = time.monotonic()
        self.evaluations = 0
        self.classes = set()
        self.samples = []
        self.violations = {}  # cls -> {"count": n, "witness": w}
        self.known = Counter()  # finding id -> hits
        self.known_witness = {}
        self.counters = Counter()
        self.flags = Counter()  # (label, flag) -> n
        self.requirements = []  # (counter, minimum)
        self.notes = []
        self.exhaustive = []
        self.soft_budget = None
        self.cov = Coverage()
        self.findings = [f for f in load_findings() if f["property"] == pid]

    # -- bookkeeping -------------------------------------------------------
    @property
    def thorough(self):
        return self.tier == "thorough"

    def pick(self, quick, thorough):
        return thorough if self.thorough else quick

    def mine(self, i: int) -> bool:
        """Shard selector for enumerated case number i."""
        return i % self.nshards == self.shard

    def elapsed(self):
        return time.monotonic() - self.t0

    def out_of_time(self):
        return self.soft_budget is not None and self.elapsed() > self.soft_budget

    def case(self, cls_key, sample=None, trivial=False) -> None:
        """Count one judged execution; cls_key identifies its case class."""
        self.evaluations += 1
        if not trivial:
            if cls_key not in self.classes:
                self.classes.add(cls_key)
                if sample is not None and len(self.samples) < self.MAX_SAMPLES and (
                        len(self.classes) % 7 == 1 or len(self.samples) < 2):
                    self.samples.append(jsonable(sample() if callable(sample) else sample))

    def count(self, name, n=1) -> None:
        self.counters[name] += n

    def flag_hist(self, label, flags) -> None:
        for f in flags:
            self.flags[f"{label}:{FLAGNAME.get(int(f), int(f))}"] += 1

    def require(self, counter, minimum=1) -> None:
        self.requirements.append((counter, minimum))

    # -- verdicts ----------------------------------------------------------
    def violation(self, cls, witness) -> None:
        """Record a violation. `cls` is the violation class (mechanism-level, never
        random values); `witness` a JSON-able dict that reproduces it."""
        from vfw import findings as F  # noqa: PLC0415

        for f in self.findings:
            if f.get("status") == "open":
                pred = F.PREDICATES.get(f["id"])
                try:
                    if pred is not None and pred(cls, witness):
                        self.known[f["id"]] += 1
                        self.known_witness.setdefault(f["id"], jsonable(witness))
                        return
                except Exception:  # noqa: BLE001
                    pass
        v = self.violations.get(cls)
        if v is None:
            self.violations[cls] = {"count": 1, "witness": jsonable(witness)}
        else:
            v["count"] += 1
            # keep the smallest witness seen
            try:
                if len(json.dumps(jsonable(witness))) < len(json.dumps(v["witness"])):
                    v["witness"] = jsonable(witness)
            except Exception:  # noqa: BLE001
                pass

    def dump(self):
        return {
            "evaluations": self.evaluations,
            "classes": sorted(self.classes),
            "samples": self.samples,
            "violations": self.violations,
            "known": dict(self.known),
            "known_witness": self.known_witness,
            "counters": dict(self.counters),
            "flags": dict(self.flags),
            "requirements": self.requirements,
            "notes": self.notes,
            "exhaustive": self.exhaustive,
            "cov": sorted(self.cov.hit),
            "wall": self.elapsed(),
        }


def digest(*arrays) -> str:
    import numpy as np

    h = hashlib.blake2b(digest_size=12)
    for a in arrays:
        if a is None:
            h.update(b"None")
            continue
        if isinstance(a, np.ma.MaskedArray):
            h.update(np.ascontiguousarray(np.asarray(a.data)).tobytes())
            h.update(np.ma.getmaskarray(a).tobytes())
        elif isinstance(a, np.ndarray):
            if a.dtype.kind == "O":
                h.update(repr(a.tolist()).encode())
            else:
                h.update(np.ascontiguousarray(a).tobytes())
        else:
            h.update(repr(a).encode())
    return h.hexdigest()
