"""W5 driver: the repository's tests under contracts (thorough tier of C01)."""
from __future__ import annotations

import json
import os
import subprocess
import sys
import tempfile
from pathlib import Path

from vfw import core

TESTS = ["tests/test_qartod.py", "tests/test_argo.py", "tests/test_axds.py", "tests/test_streams.py",
         "tests/test_config.py", "tests/test_config_deprecated.py"]


def run_under_contracts(ctx, timeout=900) -> None:
    out = Path(tempfile.mkstemp(prefix="vf-w5-", suffix=".json", dir=core.OUT)[1])
    env = dict(os.environ, VFW_PLUGIN_OUT=str(out), PYTHONPATH=f"{core.SRC}:{core.ROOT}", PYTHONDONTWRITEBYTECODE="1")
    cmd = [sys.executable, "-m", "pytest", "-q", "-p", "vfw.pytest_plugin", "-p", "no:cacheprovider", "-x", "--no-header",
           *[t for t in TESTS if (core.SRC / t).exists()]]
    try:
        p = subprocess.run(cmd, cwd=core.SRC, env=env, timeout=timeout, capture_output=True, text=True, check=False)
    except subprocess.TimeoutExpired:
        ctx.notes.append("W5: repository tests under contracts timed out")
        out.unlink(missing_ok=True)
        return
    try:
        rep = json.loads(out.read_text())
    except Exception:  # noqa: BLE001
        ctx.notes.append(f"W5: no plugin report (rc={p.returncode}): {p.stdout[-300:]}")
        out.unlink(missing_ok=True)
        return
    out.unlink(missing_ok=True)
    if str(core.SRC) not in rep.get("ioos_qc_file", ""):
        ctx.notes.append(f"W5: tests imported {rep.get('ioos_qc_file')}, not the tree under check")
        return
    ctx.count("w5.repo_test_sessions")
    ctx.count("w5.contract_evaluations", sum(rep["evals"].values()))
    ctx.count("w5.pytest_exitstatus", rep["exitstatus"])
    for b in rep["broken"]:
        ctx.violation(f"C01:w5-contract:{b['func']}:{b['what']}", {"kind": "repo-test-under-contract", **b})
