"""./vf check <id> [--tier quick|thorough] [--shards N]   | ./vf replay <path> | ./vf setup"""
from __future__ import annotations

import argparse
import importlib
import json
import os
import subprocess
import sys
import tempfile
import time
import traceback
from collections import Counter
from pathlib import Path

from vfw import core


def load_check(pid):
    return importlib.import_module(f"vfw.checks.{pid.lower()}")


def run_shard(pid, tier, seed, shard, nshards, outpath) -> int:
    """Executed in a fresh process: run one shard, dump its observations as JSON."""
    mod = load_check(pid)
    ctx = core.Ctx(pid, tier, seed, shard, nshards)
    status = "ok"
    try:
        core.ensure_deps()
        core.import_target()
        ctx.cov.start()
        try:
            mod.run(ctx)
            from vfw import client  # noqa: PLC0415

            client.drain_alias(ctx, pid)  # earlier results that a later call changed (every check that uses the boundary client)
        finally:
            ctx.cov.stop()
    except core.Inconclusive as e:
        status = f"inconclusive: {e}"
    except Exception as e:  # harness failure: never a verdict about the code  # noqa: BLE001
        status = "harness-error: " + "".join(traceback.format_exception_only(type(e), e)).strip()
        ctx.notes.append(traceback.format_exc()[-3000:])
    d = ctx.dump()
    d["status"] = status
    Path(outpath).write_text(json.dumps(d))
    return 0


def merge(parts):
    m = {"evaluations": 0, "classes": set(), "samples": [], "violations": {}, "known": Counter(),
         "known_witness": {}, "counters": Counter(), "flags": Counter(), "requirements": [],
         "notes": [], "exhaustive": [], "cov": set(), "status": []}
    for p in parts:
        m["evaluations"] += p["evaluations"]
        m["classes"].update(p["classes"])
        for s in p["samples"]:
            if len(m["samples"]) < 8:
                m["samples"].append(s)
        for cls, v in p["violations"].items():
            if cls not in m["violations"]:
                m["violations"][cls] = dict(v)
            else:
                m["violations"][cls]["count"] += v["count"]
                if len(json.dumps(v["witness"])) < len(json.dumps(m["violations"][cls]["witness"])):
                    m["violations"][cls]["witness"] = v["witness"]
        m["known"].update(p["known"])
        for k, w in p["known_witness"].items():
            m["known_witness"].setdefault(k, w)
        m["counters"].update(p["counters"])
        m["flags"].update(p["flags"])
        for r in p["requirements"]:
            if r not in m["requirements"]:
                m["requirements"].append(r)
        m["notes"].extend(p["notes"])
        for e in p["exhaustive"]:
            if e not in m["exhaustive"]:
                m["exhaustive"].append(e)
        m["cov"].update(tuple(c) for c in p["cov"])
        if p["status"] != "ok":
            m["status"].append(p["status"])
    return m


def anchor_report(mod, cov):
    """lines hit / total for each anchored function; missing anchors -> inconclusive."""
    import ioos_qc  # noqa: F401

    by = {}
    for f, q, ln in cov:
        by.setdefault((f, q), set()).add(ln)
    rep, missing = {}, []
    for f, q in getattr(mod, "ANCHORS", []):
        modname = "ioos_qc." + f[:-3].replace("/", ".")
        try:
            m = importlib.import_module(modname)
            total = core.code_lines(m, q)
        except Exception:  # noqa: BLE001
            total = None
        hit = by.get((f, q), set())
        rep[f"{f}:{q}"] = {"lines_hit": len(hit), "lines_total": len(total) if total else None}
        if not hit and total is None and ".<locals>." in q:
            # a nested helper of the anchored function that this tree does not have (the function was restructured);
            # the enclosing function is anchored too and stays mandatory
            rep[f"{f}:{q}"]["absent_in_this_tree"] = True
            continue
        if not hit:
            missing.append(f"{f}:{q}")
    return rep, missing


def check(pid, tier, seed, nshards=None) -> int:
    t0 = time.time()
    mod = load_check(pid)
    core.OUT.mkdir(exist_ok=True)
    core.EVID.mkdir(exist_ok=True)
    core.ensure_deps()
    if nshards is None:
        nshards = mod.SHARDS[tier] if isinstance(getattr(mod, "SHARDS", None), dict) else 1
    nshards = max(1, min(nshards, os.cpu_count() or 1))
    timeout = getattr(mod, "TIMEOUT", {"quick": 900, "thorough": 5400})[tier]
    tmp = Path(tempfile.mkdtemp(prefix=f"vf-{pid}-", dir=core.OUT))
    procs = []
    for i in range(nshards):
        outp = tmp / f"shard{i}.json"
        cmd = [sys.executable, "-m", "vfw.cli", "_shard", pid, tier, str(seed), str(i), str(nshards), str(outp)]
        logf = open(tmp / f"shard{i}.log", "w")  # noqa: SIM115
        procs.append((subprocess.Popen(cmd, stdout=logf, stderr=subprocess.STDOUT, cwd=core.ROOT), outp, logf))
    parts, problems = [], []
    deadline = time.time() + timeout
    for i, (p, outp, logf) in enumerate(procs):
        try:
            p.wait(timeout=max(1, deadline - time.time()))
        except subprocess.TimeoutExpired:
            p.kill()
            problems.append(f"watchdog: shard {i} exceeded {timeout}s")
        logf.close()
        if outp.exists():
            parts.append(json.loads(outp.read_text()))
        elif not any(s.startswith(f"watchdog: shard {i}") for s in problems):
            tail = (tmp / f"shard{i}.log").read_text()[-1500:]
            problems.append(f"shard {i} died without output (rc={p.returncode}): {tail}")
    m = merge(parts) if parts else None
    verdict, lines = "held", []
    evidence_path = core.EVID / f"{pid}.json"
    if str(core.SRC) != "/repo":
        # runs against a scratch tree (monitor validation) never touch the committed evidence
        (core.OUT / "evidence-scratch").mkdir(exist_ok=True)
        evidence_path = core.OUT / "evidence-scratch" / f"{pid}.json"
    if m is None:
        verdict = "inconclusive"
        m = merge([])
    problems.extend(m["status"])
    # requirements: deciding monitors must have observed something
    for counter, minimum in m["requirements"]:
        if m["counters"].get(counter, 0) < minimum:
            problems.append(f"monitor '{counter}' observed {m['counters'].get(counter, 0)} < {minimum} events")
    core.setup_paths()
    try:
        arep, missing = anchor_report(mod, m["cov"])
    except Exception as e:  # noqa: BLE001
        arep, missing = {}, []
        problems.append(f"anchor report failed: {e}")
    for a in missing:
        problems.append(f"anchor never executed: {a}")
    # violations
    rdir = core.OUT / ("replay" if str(core.SRC) == "/repo" else "replay-scratch-" + core.slug(str(core.SRC))) / pid
    rdir.mkdir(parents=True, exist_ok=True)
    for old_file in rdir.glob("*.json"):
        old_file.unlink()
    findings = {f["id"]: f for f in core.load_findings()}
    for fid, n in sorted(m["known"].items()):
        f = findings.get(fid, {})
        lines.append(f"KNOWN-FINDING: property={pid} {fid}: {f.get('what', '')} (hit {n}x)")
    nviol = 0
    for cls, v in sorted(m["violations"].items()):
        nviol += v["count"]
        rp = rdir / f"{core.slug(cls)}.json"
        rp.write_text(json.dumps({"property": pid, "class": cls, "tier": tier, "seed": seed,
                                  "count": v["count"], "witness": v["witness"]}, indent=1))
        lines.append(f"VIOLATION property={pid} replay={rp.relative_to(core.ROOT)}  # {cls} x{v['count']}")
    if nviol:
        verdict = "violated"
    elif problems:
        verdict = "inconclusive"
    wall = time.time() - t0
    n_distinct = len(m["classes"])
    cov = {
        "evaluations": m["evaluations"],
        "distinct_nontrivial": n_distinct,
        "rule": getattr(mod, "RULE", ""),
        "samples": m["samples"],
        "exhaustive": bool(m["exhaustive"]) and getattr(mod, "EXHAUSTIVE_ALL", False),
        "exhaustive_subspaces": m["exhaustive"],
        "monitor_events": dict(sorted(m["counters"].items())),
        "flags_observed": dict(sorted(m["flags"].items())),
        "anchor_line_coverage": arep,
        "known_findings_hit": dict(m["known"]),
        "violation_classes": {k: v["count"] for k, v in m["violations"].items()},
        "shards": nshards,
        "verdict": verdict,
        "problems": problems,
        "tree": str(core.SRC),
    }
    ev = {
        "property_id": pid, "tier": tier, "seed": seed, "level": getattr(mod, "LEVEL", "exploration"),
        "coverage": cov, "assumptions": getattr(mod, "ASSUMPTIONS", []), "wall_s": round(wall, 2),
        "violations": nviol,
    }
    evidence_path.write_text(json.dumps(ev, indent=1))
    for ln in lines:
        print(ln)
    print(f"[{pid} {tier} seed={seed}] verdict={verdict} evaluations={m['evaluations']} "
          f"distinct={n_distinct} violations={nviol} known={sum(m['known'].values())} "
          f"shards={nshards} wall={wall:.1f}s")
    for k, v in sorted(m["counters"].items()):
        print(f"    monitor {k}: {v}")
    if verdict == "inconclusive":
        for pr in problems:
            print(f"INCONCLUSIVE property={pid} reason={pr[:600]}")
    # clean shard scratch
    for f in tmp.iterdir():
        f.unlink()
    tmp.rmdir()
    return {"held": 0, "violated": 1, "inconclusive": 2}[verdict]


def replay(path) -> int:
    d = json.loads(Path(path).read_text())
    mod = load_check(d["property"])
    core.ensure_deps()
    core.import_target()
    print(f"replaying {d['property']} class={d['class']}")
    fn = getattr(mod, "replay", None)
    if fn is None:
        from vfw import client  # noqa: PLC0415

        fn = client.generic_replay
    return fn(d["witness"])


def main(argv=None) -> int:
    argv = list(sys.argv[1:] if argv is None else argv)
    if argv and argv[0] == "_shard":
        _, pid, tier, seed, shard, nshards, outp = argv
        return run_shard(pid, tier, int(seed), int(shard), int(nshards), outp)
    ap = argparse.ArgumentParser(prog="vf")
    sub = ap.add_subparsers(dest="cmd", required=True)
    c = sub.add_parser("check")
    c.add_argument("pid")
    c.add_argument("--tier", default=os.environ.get("VERIF_TIER", "quick"), choices=["quick", "thorough"])
    c.add_argument("--shards", type=int, default=None)
    r = sub.add_parser("replay")
    r.add_argument("path")
    sub.add_parser("setup")
    a = ap.parse_args(argv)
    if a.cmd == "setup":
        core.ensure_deps()
        core.import_target()
        print("setup ok")
        return 0
    if a.cmd == "replay":
        return replay(a.path)
    seed = int(os.environ.get("VERIF_SEED", "0") or 0)
    return check(a.pid.upper(), a.tier, seed, a.shards)


if __name__ == "__main__":
    sys.exit(main())
