"""C17 — flags ignore value/time offsets and depend only on the local neighbourhood (DESIGN §4 C17)."""
from __future__ import annotations

import numpy as np

from vfw import client, core, gen, models

LEVEL = "exploration"
SHARDS = {"quick": 4, "thorough": 16}
ANCHORS = [("qartod.py", "spike_test"), ("qartod.py", "rate_of_change_test"), ("qartod.py", "flat_line_test"),
           ("qartod.py", "attenuated_signal_test"), ("qartod.py", "density_inversion_test"), ("qartod.py", "gross_range_test"),
           ("qartod.py", "climatology_test"), ("qartod.py", "location_test"), ("argo.py", "speed_test"),
           ("axds.py", "valid_range_test"), ("utils.py", "mapdates")]
RULE = ("dyadic series of 1..10 (..16 thorough) points with missing values on regular / irregular whole-second axes; "
        "transformed twins: value offsets {1,-3,1/2,1024,2^20,-2^30}, negation, time shifts {1 s, 1 d, 365 d, -3650 d, "
        "1 w + 1 s; and sub-second shifts of sub-second instants} (absolute climatology / valid-range spans shifted with the data), joint data+span shifts, series "
        "reversal (spike); and every single-point perturbation (value->value, value->missing, missing->value) at "
        "every position with the flags outside the statement's neighbourhood required unchanged.  Relations are "
        "checked on recorded pairs of real calls.  distinct = (test mode, relation, parameter, flag set); trivial = "
        "all GOOD.")
ASSUMPTIONS = ["std-based attenuation thresholds are kept >= 1% away from every spread present (guard band for rounding "
               "under large offsets)"]
EXHAUSTIVE_ALL = False

OFFSETS = [1.0, -3.0, 0.5, 1024.0, float(2 ** 20), float(-(2 ** 30))]
TSHIFTS = [1, 86400, 365 * 86400, -3650 * 86400, 7 * 86400 + 1]


def flags(o):
    return None if o.kind != "return" else o.flags.reshape(-1).tolist()


def relate(ctx, mode, rel, param, func, kw_a, kw_b, expect_map, case) -> None:
    """expect_map(flags_a) -> what flags_b must be"""
    a, b = client.invoke(func, kw_a), client.invoke(func, kw_b)
    ctx.count("c17.relation_pairs")
    fa, fb = flags(a), flags(b)
    fs = "raise" if fa is None else "".join(map(str, sorted(set(fa))))
    ctx.case(f"{mode}|{rel}|{param}|{fs}", trivial=fs in ("1", "12", ""),
             sample={"mode": mode, "relation": rel, "param": param, **case, "flags": fa})
    if fa is None or fb is None:
        if (fa is None) != (fb is None):
            ctx.violation(f"C17:{mode}:{rel}:one-side-raised",
                          {"kind": "relation", "func": func, "relation": rel, "param": param, **case,
                           "original": a.brief(), "transformed": b.brief()})
        return
    want = expect_map(fa)
    if fb != want:
        ctx.violation(f"C17:{mode}:{rel}",
                      {"kind": "relation", "func": func, "relation": rel, "param": param, **case,
                       "original_flags": fa, "transformed_flags": fb, "expected_transformed_flags": want})


def off(x, c):
    return [None if v is None else v + c for v in x]


def neg(x):
    return [None if v is None else -v for v in x]


def spreads(x, t, period, kind):
    from vfw.checks.c12 import spreads as sp

    return sp(x, t, period, kind)


def run(ctx) -> None:
    rng = ctx.rng
    ctx.require("c17.relation_pairs", 3000)
    ctx.require("c17.locality_pairs", 2000)
    ident = lambda f: f  # noqa: E731
    for _ in range(ctx.pick(420, 3000)):
        n = rng.choice([1, 2, 3, 4, 5, 7, ctx.pick(10, 16)])
        x = gen.series(rng, n, pmiss=rng.choice([0, 0.15, 0.3]))
        regular = rng.random() < 0.5
        D = rng.choice([1, 60])
        t = gen.regular(n, D) if regular else gen.irregular(rng, n, steps=(1, 2, 60, 61, 3600))
        X = lambda v: gen.arr(v)  # noqa: E731
        TT = lambda v: gen.times(v)  # noqa: E731
        case = {"x": x, "t": t}
        c = rng.choice(OFFSETS)
        dt_ = rng.choice(TSHIFTS)
        ts = [v + dt_ for v in t]
        # ---- spike
        for meth in ("average", "differential"):
            ds = sorted({models.spike_d(x[k - 1], x[k], x[k + 1], meth) for k in range(1, n - 1)
                         if None not in (x[k - 1], x[k], x[k + 1])}) or [1.0]
            st, ft = rng.choice([None, 0, *ds]), rng.choice([None, *ds, ds[-1] + 1])
            p = {"suspect_threshold": st, "fail_threshold": ft, "method": meth}
            pc = {**case, "params": core.jsonable(p)}
            relate(ctx, f"spike-{meth}", "offset", c, "qartod.spike_test", {"inp": X(x), **p}, {"inp": X(off(x, c)), **p}, ident, pc)
            relate(ctx, f"spike-{meth}", "negate", "", "qartod.spike_test", {"inp": X(x), **p}, {"inp": X(neg(x)), **p}, ident, pc)
            relate(ctx, f"spike-{meth}", "reverse", "", "qartod.spike_test", {"inp": X(x), **p}, {"inp": X(x[::-1]), **p},
                   lambda f: f[::-1], pc)
        # ---- the same relations on narrow integer carriers (values and offset fit the dtype exactly)
        if n >= 3 and rng.random() < 0.3:
            dt_i, lo_i, hi_i, off_i = rng.choice([("int16", 11000, 13000, 8000), ("int16", -2000, 2000, -30000), ("uint8", 10, 60, 150),
                                                  ("int8", -20, 20, 100), ("int32", 2 ** 30 - 3000, 2 ** 30, 2 ** 30 - 1)])
            xi = [rng.randrange(lo_i, hi_i + 1) for _ in range(n)]
            xi[n // 2] = hi_i if xi[n // 2] < (lo_i + hi_i) // 2 else lo_i
            for meth in ("average", "differential"):
                p = {"suspect_threshold": (hi_i - lo_i) / 8, "fail_threshold": (hi_i - lo_i) / 3, "method": meth}
                relate(ctx, f"spike-{meth}", f"offset-{dt_i}", off_i, "qartod.spike_test",
                       {"inp": np.array(xi, dtype=dt_i), **p}, {"inp": np.array([v + off_i for v in xi], dtype=dt_i), **p}, ident,
                       {"x": xi, "dtype": dt_i, "params": p})
            relate(ctx, "flat_line", f"offset-{dt_i}", off_i, "qartod.flat_line_test",
                   {"inp": np.array(xi, dtype=dt_i), "tinp": TT(gen.regular(n, 60)), "suspect_threshold": 60, "fail_threshold": 120,
                    "tolerance": (hi_i - lo_i) / 4},
                   {"inp": np.array([v + off_i for v in xi], dtype=dt_i), "tinp": TT(gen.regular(n, 60)), "suspect_threshold": 60,
                    "fail_threshold": 120, "tolerance": (hi_i - lo_i) / 4}, ident, {"x": xi, "dtype": dt_i})
        # ---- rate of change
        rates = sorted({abs(x[k] - x[k - 1]) / (t[k] - t[k - 1]) for k in range(1, n) if None not in (x[k], x[k - 1])
                        }) or [1.0]
        th = rng.choice([0, *[r for r in rates if float(r).hex().endswith("p+0") or True]])
        pc = {**case, "threshold": th}
        if all(abs(r - th) > 1e-12 * max(r, th) or r == th for r in rates):
            k0 = {"inp": X(x), "tinp": TT(t), "threshold": th}
            relate(ctx, "rate_of_change", "offset", c, "qartod.rate_of_change_test", k0, {**k0, "inp": X(off(x, c))}, ident, pc)
            relate(ctx, "rate_of_change", "negate", "", "qartod.rate_of_change_test", k0, {**k0, "inp": X(neg(x))}, ident, pc)
            relate(ctx, "rate_of_change", "time-shift", dt_, "qartod.rate_of_change_test", k0, {**k0, "tinp": TT(ts)}, ident, pc)
        # ---- sub-second instants and sub-second shifts (elapsed whole seconds are shift-invariant only if the
        #      difference is taken before truncation)
        if n >= 2 and rng.random() < 0.5:
            tf, cur = [], float(gen.T0)
            for _k in range(n):
                tf.append(cur)
                cur += rng.choice([1.0, 1.5, 2.5, 3.0])
            dsub = rng.choice([0.5, 0.25, 86400.5, -0.75])
            tfs = [v + dsub for v in tf]
            k0 = {"inp": X(x), "tinp": gen.ftimes(tf), "threshold": rng.choice([0.1, 0.4, 1.0])}
            relate(ctx, "rate_of_change", "time-shift-subsecond", dsub, "qartod.rate_of_change_test", k0,
                   {**k0, "tinp": gen.ftimes(tfs)}, ident, {"x": x, "t": tf, "threshold": k0["threshold"]})
            lon_ = [10.0 + 0.25 * rng.randrange(0, 12) for _ in range(n)]
            lat_ = [50.0 + 0.125 * rng.randrange(0, 12) for _ in range(n)]
            k1 = {"lon": X(lon_), "lat": X(lat_), "tinp": gen.ftimes(tf), "suspect_threshold": rng.choice([2000, 9000]),
                  "fail_threshold": rng.choice([15000, 40000])}
            relate(ctx, "speed", "time-shift-subsecond", dsub, "argo.speed_test", k1, {**k1, "tinp": gen.ftimes(tfs)}, ident,
                   {"lon": lon_, "lat": lat_, "t": tf})
            k2 = {"inp": X(x), "tinp": gen.ftimes(tf), "suspect_threshold": 1.1, "fail_threshold": 0.3, "check_type": "range",
                  "test_period": rng.choice([3, 4]), "min_obs": 1}
            relate(ctx, "attenuated-range-window", "time-shift-subsecond", dsub, "qartod.attenuated_signal_test", k2,
                   {**k2, "tinp": gen.ftimes(tfs)}, ident, {"x": x, "t": tf})
            # quarter-second sampling given as epoch numbers (and other carriers), windows of a whole number of steps: every
            # window edge lies exactly on a sample, before and after the shift
            stepq = rng.choice([0.25, 1.25, 0.75])
            tq = [float(gen.T0) + rng.choice([0.0, 0.25]) + stepq * k for k in range(n)]
            dq = rng.choice([0.25, 0.5, 1.0, 86400.25, -0.75, 3600.0])
            carq = rng.choice(["epoch-float", "epoch-list", "dt64ns", "dt64ms", "pydatetime"])
            for kind in ("range", "std"):
                k3 = {"inp": X(x), "tinp": gen.ftimes(tq, carq), "suspect_threshold": 1.1, "fail_threshold": 0.3, "check_type": kind,
                      "test_period": stepq * rng.choice([2, 3]), "min_obs": rng.choice([1, 2])}
                relate(ctx, f"attenuated-{kind}-window", f"time-shift-quarter-second-{carq}", dq, "qartod.attenuated_signal_test", k3,
                       {**k3, "tinp": gen.ftimes([v + dq for v in tq], carq)}, ident, {"x": x, "t": tq, "params": core.jsonable({k: v for k, v in k3.items() if k not in ("inp", "tinp")})})
            k4 = {"inp": X(x), "tinp": gen.ftimes(tq, carq), "threshold": rng.choice([0.1, 0.4, 1.0])}
            relate(ctx, "rate_of_change", f"time-shift-quarter-second-{carq}", dq, "qartod.rate_of_change_test", k4,
                   {**k4, "tinp": gen.ftimes([v + dq for v in tq], carq)}, ident, {"x": x, "t": tq, "threshold": k4["threshold"]})
        # ---- flat line (regular axes)
        tr = gen.regular(n, D)
        p = {"suspect_threshold": rng.choice([0, D, 2 * D, 3 * D]), "fail_threshold": rng.choice([D, 3 * D, 4 * D, (n + 1) * D]),
             "tolerance": rng.choice([0, 0.25, 0.5, 1, 2.5])}
        k0 = {"inp": X(x), "tinp": TT(tr), **p}
        pc = {**case, "t": tr, "params": p}
        relate(ctx, "flat_line", "offset", c, "qartod.flat_line_test", k0, {**k0, "inp": X(off(x, c))}, ident, pc)
        relate(ctx, "flat_line", "negate", "", "qartod.flat_line_test", k0, {**k0, "inp": X(neg(x))}, ident, pc)
        relate(ctx, "flat_line", "time-shift", dt_, "qartod.flat_line_test", k0, {**k0, "tinp": TT([v + dt_ for v in tr])}, ident, pc)
        # ---- history + shift: an axis of the same length and the same first / last instant, but sampled in a burst, is run
        #      right after the regular one -- and then shifted: its own spacing decides, before and after the shift
        if n >= 5:
            ta = gen.regular(n, 10)
            tb_ = [ta[0] + k for k in range(n - 1)] + [ta[-1]]
            pf = {"suspect_threshold": rng.choice([2, 10, 20]), "fail_threshold": rng.choice([3, 30, 40]), "tolerance": rng.choice([0.5, 1.5, 4])}
            client.invoke("qartod.flat_line_test", {"inp": X(x), "tinp": TT(ta), **pf}, check_purity=False)
            k0 = {"inp": X(x), "tinp": TT(tb_), **pf}
            relate(ctx, "flat_line", "time-shift-after-same-ends-axis", dt_, "qartod.flat_line_test", k0,
                   {**k0, "tinp": TT([v + dt_ for v in tb_])}, ident, {**case, "t": tb_, "previous_axis": ta, "params": pf})
            pa = {"suspect_threshold": 1.1, "fail_threshold": 0.3, "check_type": rng.choice(["std", "range"]), "test_period": 30,
                  "min_period": rng.choice([10, 20])}
            client.invoke("qartod.attenuated_signal_test", {"inp": X(x), "tinp": TT(ta), **pa}, check_purity=False)
            k0 = {"inp": X(x), "tinp": TT(tb_), **pa}
            relate(ctx, "attenuated-minperiod", "time-shift-after-same-ends-axis", dt_, "qartod.attenuated_signal_test", k0,
                   {**k0, "tinp": TT([v + dt_ for v in tb_])}, ident, {**case, "t": tb_, "previous_axis": ta, "params": pa})
        # ---- attenuated signal
        for kind in ("std", "range"):
            period = rng.choice([None, 2 * D, 3 * D + 1, 10 * D])
            tt = tr if period else t
            sp = spreads(x, tt, period, kind)
            cands = [0, 0.1, 0.3, 0.7, 1.3, 2.9, 7.0]
            if kind == "std":
                cands = [v for v in cands if all(abs(v - s) > 0.01 * max(v, s, 1e-3) for s in sp)]
            else:
                cands += sp
            st, ft = rng.choice(cands), rng.choice(cands)
            p = {"suspect_threshold": st, "fail_threshold": ft, "check_type": kind}
            if period:
                p.update(test_period=period, min_obs=rng.choice([1, 2]))
            k0 = {"inp": X(x), "tinp": TT(tt), **p}
            pc = {**case, "t": tt, "params": p}
            mode = f"attenuated-{kind}{'-window' if period else ''}"
            relate(ctx, mode, "offset", c, "qartod.attenuated_signal_test", k0, {**k0, "inp": X(off(x, c))}, ident, pc)
            relate(ctx, mode, "negate", "", "qartod.attenuated_signal_test", k0, {**k0, "inp": X(neg(x))}, ident, pc)
            relate(ctx, mode, "time-shift", dt_, "qartod.attenuated_signal_test", k0,
                   {**k0, "tinp": TT([v + dt_ for v in tt])}, ident, pc)
        # ---- density inversion: constant added to the densities
        z = [None if rng.random() < 0.1 else float(rng.choice([k, n - k, 2])) for k in range(n)]
        p = {"suspect_threshold": rng.choice([None, 0, 0.25, 0.5]), "fail_threshold": rng.choice([None, -0.5, -0.25, 0])}
        k0 = {"inp": X(x), "zinp": X(z), **p}
        relate(ctx, "density_inversion", "offset", c, "qartod.density_inversion_test", k0, {**k0, "inp": X(off(x, c))}, ident,
               {**case, "z": z, "params": p})
        # ---- data and spans shifted together
        lo, hi = sorted((gen.dyadic(rng), gen.dyadic(rng)))
        fs_, ss_ = [lo - 1, hi + 1], rng.choice([None, [lo, hi]])
        relate(ctx, "gross_range", "joint-shift", c, "qartod.gross_range_test",
               {"inp": X(x), "fail_span": fs_, "suspect_span": ss_},
               {"inp": X(off(x, c)), "fail_span": [v + c for v in fs_], "suspect_span": None if ss_ is None else [v + c for v in ss_]},
               ident, {**case, "fail_span": fs_, "suspect_span": ss_})
        inc = (rng.random() < 0.5, rng.random() < 0.5)
        if n:
            relate(ctx, "valid_range", "joint-shift", c, "axds.valid_range_test",
                   {"inp": X(x), "valid_span": (lo, hi), "start_inclusive": inc[0], "end_inclusive": inc[1]},
                   {"inp": X(off(x, c)), "valid_span": (lo + c, hi + c), "start_inclusive": inc[0], "end_inclusive": inc[1]},
                   ident, {**case, "valid_span": [lo, hi], "inclusive": inc})
            ivals = [int(v) for v in (rng.randrange(-5, 6) for _ in range(n))]
            ilo, ihi = sorted((rng.randrange(-4, 5), rng.randrange(-4, 5)))
            ioff = rng.choice([1000, 2 ** 40, 2 ** 60, -(2 ** 60), 2 ** 62 - 100])
            relate(ctx, "valid_range-int64", "joint-shift", ioff, "axds.valid_range_test",
                   {"inp": np.array(ivals, dtype=np.int64), "valid_span": (ilo, ihi), "start_inclusive": inc[0], "end_inclusive": inc[1]},
                   {"inp": np.array([v + ioff for v in ivals], dtype=np.int64), "valid_span": (ilo + ioff, ihi + ioff),
                    "start_inclusive": inc[0], "end_inclusive": inc[1]}, ident, {"values": ivals, "valid_span": [ilo, ihi], "inclusive": inc})
            a, b = sorted(rng.sample(t, 2)) if n >= 2 else (t[0], t[0] + 5)
            d64 = lambda s: gen.times([s], "dt64ns")[0]  # noqa: E731
            relate(ctx, "valid_range-time", "time-shift", dt_, "axds.valid_range_test",
                   {"inp": TT(t), "valid_span": (d64(a), d64(b)), "start_inclusive": inc[0], "end_inclusive": inc[1]},
                   {"inp": TT(ts), "valid_span": (d64(a + dt_), d64(b + dt_)), "start_inclusive": inc[0], "end_inclusive": inc[1]},
                   ident, {**case, "span_s": [a, b], "inclusive": inc})
            # climatology with absolute spans shifted too
            iso = lambda s: str(gen.times([s], "dt64s")[0])  # noqa: E731
            mem = [{"tspan": [iso(a), iso(b)], "vspan": [lo, hi], "fspan": [lo - 1, hi + 1]},
                   {"tspan": [iso(t[0]), iso(a)], "vspan": [lo, lo], "zspan": [0, 2]}]
            mem2 = [{**mem[0], "tspan": [iso(a + dt_), iso(b + dt_)]}, {**mem[1], "tspan": [iso(t[0] + dt_), iso(a + dt_)]}]
            zz = X([None if rng.random() < 0.15 else float(k % 4) for k in range(n)])
            relate(ctx, "climatology", "time-shift", dt_, "qartod.climatology_test",
                   {"config": mem, "inp": X(x), "tinp": TT(t), "zinp": zz},
                   {"config": mem2, "inp": X(x), "tinp": TT(ts), "zinp": zz}, ident, {**case, "members": mem})
        # ---- climatology member whose absolute span ENDS on a midnight, samples through the following day, shifted (data and
        #      span together) by something that is not a whole number of days
        if n >= 2:
            mid = gen.T0 - (gen.T0 % 86400)
            tm_ = [mid + 3600 * k for k in range(n)]
            iso_ = lambda s_: str(gen.times([s_], "dt64s")[0])  # noqa: E731
            sh_ = rng.choice([3600 * 5 + 7, 1800, -7200 - 1, 86400 + 3600])
            memA = [{"tspan": [iso_(mid - 86400), iso_(mid)], "vspan": [lo, hi], "fspan": [lo - 1, hi + 1]}]
            memB = [{"tspan": [iso_(mid - 86400 + sh_), iso_(mid + sh_)], "vspan": [lo, hi], "fspan": [lo - 1, hi + 1]}]
            relate(ctx, "climatology", "time-shift-span-ending-at-midnight", sh_, "qartod.climatology_test",
                   {"config": memA, "inp": X(x), "tinp": TT(tm_), "zinp": X([None] * n)},
                   {"config": memB, "inp": X(x), "tinp": TT([v + sh_ for v in tm_]), "zinp": X([None] * n)}, ident, {**case, "t": tm_, "members": memA})
        # ---- the same relations with the values carried in masked arrays (whatever lies under the mask stays there)
        if n >= 2 and any(v is None for v in x):
            hid = rng.choice([0.0, 3.0, -50.0, 1000.0])
            MX = lambda v: np.ma.MaskedArray(np.array([hid if q is None else q for q in v], dtype=float), mask=[q is None for q in v])  # noqa: E731
            zq = [float(k) for k in range(n)]
            pq = {"suspect_threshold": rng.choice([None, 0, 0.25, 0.5]), "fail_threshold": rng.choice([None, -0.5, -0.25, 0])}
            relate(ctx, "density_inversion", "offset-masked-carrier", c, "qartod.density_inversion_test",
                   {"inp": MX(x), "zinp": X(zq), **pq}, {"inp": MX(off(x, c)), "zinp": X(zq), **pq}, ident, {**case, "z": zq, "params": pq, "hidden_value": hid})
            relate(ctx, "rate_of_change", "offset-masked-carrier", c, "qartod.rate_of_change_test",
                   {"inp": MX(x), "tinp": TT(t), "threshold": 0.01}, {"inp": MX(off(x, c)), "tinp": TT(t), "threshold": 0.01}, ident,
                   {**case, "hidden_value": hid})
            for meth in ("average", "differential"):
                relate(ctx, f"spike-{meth}", "offset-masked-carrier", c, "qartod.spike_test",
                       {"inp": MX(x), "suspect_threshold": 0.5, "fail_threshold": 2, "method": meth},
                       {"inp": MX(off(x, c)), "suspect_threshold": 0.5, "fail_threshold": 2, "method": meth}, ident, {**case, "hidden_value": hid})
        # ---- speed: time shift
        lon = [None if rng.random() < 0.08 else 10.0 + 0.25 * rng.randrange(0, 12) for _ in range(n)]
        lat = [None if rng.random() < 0.08 else 50.0 + 0.125 * rng.randrange(0, 12) for _ in range(n)]
        p = {"suspect_threshold": rng.choice([0, 5, 50, 500]), "fail_threshold": rng.choice([10, 100, 1000, 20000])}
        k0 = {"lon": X(lon), "lat": X(lat), "tinp": TT(t), **p}
        relate(ctx, "speed", "time-shift", dt_, "argo.speed_test", k0, {**k0, "tinp": TT(ts)}, ident,
               {"lon": lon, "lat": lat, "t": t, "params": p})

        # ---- locality: single-point perturbations
        def perturb(v):
            r = rng.random()
            if v is None:
                return gen.dyadic(rng)
            if r < 0.25:
                return None
            return v + rng.choice([-4, -1, -0.25, 0.25, 1, 4, 100])

        def local(mode, func, kw, key, series, hood, extra=None):
            base = client.invoke(func, kw)
            fb = flags(base)
            if fb is None:
                return
            for pos in range(len(series)):
                y = list(series)
                y[pos] = perturb(y[pos])
                o = client.invoke(func, {**kw, key: X(y)})
                ctx.count("c17.locality_pairs")
                fo = flags(o)
                if fo is None:
                    ctx.violation(f"C17:{mode}:locality:raised", {"kind": "locality", "func": func, "position": pos,
                                                                  "series": series, "perturbed": y, "observed": o.brief()})
                    continue
                allowed = hood(pos)
                changed = [i for i in range(len(fb)) if fb[i] != fo[i]]
                ctx.case(f"{mode}|locality|{'changed' if changed else 'same'}|{'miss' if y[pos] is None else 'val'}",
                         sample={"mode": mode, "series": series, "position": pos, "perturbed_value": y[pos],
                                 "flags_before": fb, "flags_after": fo})
                outside = [i for i in changed if i not in allowed]
                if outside:
                    ctx.violation(f"C17:{mode}:locality",
                                  {"kind": "locality", "func": func, "input": key, "series": series, "position": pos,
                                   "perturbed_value": y[pos], "params": core.jsonable(extra), "flags_before": fb,
                                   "flags_after": fo, "changed_outside_neighbourhood": outside,
                                   "neighbourhood": sorted(allowed)})

        if n and rng.random() < 0.6:
            self_only = lambda p_: {p_}  # noqa: E731
            three = lambda p_: {p_ - 1, p_, p_ + 1}  # noqa: E731
            succ = lambda p_: {p_, p_ + 1}  # noqa: E731
            local("gross_range", "qartod.gross_range_test", {"inp": X(x), "fail_span": fs_, "suspect_span": ss_}, "inp", x, self_only)
            local("valid_range", "axds.valid_range_test", {"inp": X(x), "valid_span": (lo, hi)}, "inp", x, self_only)
            local("climatology", "qartod.climatology_test",
                  {"config": [{"tspan": [1, 12], "period": "month", "vspan": [lo, hi], "fspan": [lo - 1, hi + 1]}],
                   "inp": X(x), "tinp": TT(t), "zinp": X([1.0] * n)}, "inp", x, self_only)
            local("location-bbox", "qartod.location_test", {"lon": X(lon), "lat": X(lat), "bbox": [10.5, 50.25, 12, 51]},
                  "lon", lon, self_only)
            local("location-hop", "qartod.location_test", {"lon": X(lon), "lat": X(lat), "range_max": 20000.0}, "lat", lat, succ)
            # a compact track whose hops run corner to corner: longer than either side of its bounding box
            lon_d = [10.0 + (k % 2) * 1.0 + 0.01 * rng.randrange(0, 3) for k in range(n)]
            lat_d = [50.0 + (k % 2) * 1.0 for k in range(n)]
            for rm in (120000.0, 130000.0):
                local("location-hop-diagonal", "qartod.location_test", {"lon": X(lon_d), "lat": X(lat_d), "range_max": rm}, "lat", lat_d, succ,
                      {"range_max": rm, "lon": lon_d})
            # burst sampling faster than 1 Hz (several samples inside one whole second): still the point and its successor
            tburst = [float(gen.T0) + 0.5 * k + (3.0 if k >= n // 2 else 0.0) for k in range(n)]
            local("rate_of_change-subsecond-burst", "qartod.rate_of_change_test",
                  {"inp": X(x), "tinp": gen.ftimes(tburst), "threshold": 0.01}, "inp", x, succ, {"t": tburst})
            # irregular axis with outages longer than the window: the trailing TIME window decides who is a neighbour
            for kind in ("std", "range"):
                per_i = rng.choice([90, 200, 4000])
                at_i = {"suspect_threshold": 1.1, "fail_threshold": 0.3, "check_type": kind, "test_period": per_i, "min_obs": rng.choice([1, 2])}
                local(f"attenuated-{kind}-window-irregular", "qartod.attenuated_signal_test", {"inp": X(x), "tinp": TT(t), **at_i}, "inp", x,
                      lambda p_: {i for i in range(n) if t[i] - per_i < t[p_] <= t[i]}, {**at_i, "t": t})
            # (the neighbourhood of a rate is positional: the point and the next row, whatever the order of the stamps)
            local("rate_of_change-descending-axis", "qartod.rate_of_change_test", {"inp": X(x), "tinp": TT(t[::-1]), "threshold": 0.01}, "inp", x, succ)
            local("spike", "qartod.spike_test", {"inp": X(x), "suspect_threshold": 0.2, "fail_threshold": 2,
                                                 "method": rng.choice(["average", "differential"])}, "inp", x, three)
            local("density_inversion-rho", "qartod.density_inversion_test",
                  {"inp": X(x), "zinp": X(z), "suspect_threshold": 0.25, "fail_threshold": -0.25}, "inp", x, three)
            local("density_inversion-z", "qartod.density_inversion_test",
                  {"inp": X(x), "zinp": X(z), "suspect_threshold": 0.25, "fail_threshold": -0.25}, "zinp", z, three)
            local("rate_of_change", "qartod.rate_of_change_test", {"inp": X(x), "tinp": TT(t), "threshold": 0.01}, "inp", x, succ)
            local("speed", "argo.speed_test", {"lon": X(lon), "lat": X(lat), "tinp": TT(t), "suspect_threshold": 5,
                                               "fail_threshold": 500}, "lon", lon, succ)
            ks, kf = rng.choice([0, 1, 2]), rng.choice([1, 3])
            fl = {"suspect_threshold": ks * D, "fail_threshold": kf * D, "tolerance": rng.choice([0.5, 1.5])}
            local("flat_line", "qartod.flat_line_test", {"inp": X(x), "tinp": TT(tr), **fl}, "inp", x,
                  lambda p_: set(range(p_, p_ + max(ks, kf) + 1)), fl)
            if D == 60:
                # durations that are not whole multiples of the step: the window is floor(duration / step) steps long
                fl2 = {"suspect_threshold": ks * D + rng.choice([31, 42, 59]), "fail_threshold": kf * D + rng.choice([35, 50]), "tolerance": fl["tolerance"]}
                local("flat_line-fractional-durations", "qartod.flat_line_test", {"inp": X(x), "tinp": TT(tr), **fl2}, "inp", x,
                      lambda p_: set(range(p_, p_ + max(ks, kf) + 1)), fl2)
            per = max(D, rng.choice([2 * D, 3 * D + 1, (n - 1) * D, n * D + 7]))  # also windows as long as the whole record
            for kind in ("std", "range"):
                at = {"suspect_threshold": 1.1, "fail_threshold": 0.3, "check_type": kind, "test_period": per}
                r_ = rng.random()
                if r_ < 0.45:
                    at["min_obs"] = rng.choice([1, 2])
                elif r_ < 0.8 and n >= 2:
                    at["min_period"] = rng.choice([0, D, 2 * D])  # the other way to state the minimum: same window (t - P, t]
                local(f"attenuated-{kind}-window", "qartod.attenuated_signal_test", {"inp": X(x), "tinp": TT(tr), **at}, "inp", x,
                      lambda p_: {i for i in range(n) if tr[i] - per < tr[p_] <= tr[i]}, at)
