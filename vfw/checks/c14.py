"""C14 — location: bounding-box membership and hop distance (DESIGN §4 C14)."""
from __future__ import annotations

import itertools

import numpy as np

from vfw import client, gen, models

LEVEL = "exploration"
SHARDS = {"quick": 4, "thorough": 16}
ANCHORS = [("qartod.py", "location_test"), ("utils.py", "great_circle_distance"), ("utils.py", "isfixedlength")]
RULE = ("tracks of 0..6 positions drawn from box corners, edge midpoints, inside points, points 1/4 degree outside each "
        "edge and antimeridian-adjacent longitudes; boxes: default globe, regular, degenerate (point/line), list and "
        "tuple; range_max in {None, 0, 1, d*0.999, d*1.001, 1e7} with d a hop actually present; all 4^n lon/lat "
        "missing placements for n<=4 (5 thorough); every enumeration also contains an over-long hop ending outside "
        "the box (FAIL must win over SUSPECT); shape mismatches and malformed boxes must be rejected.  distinct = "
        "(box kind, range_max class, length class, missing class, set of flags); trivial = all GOOD.")
ASSUMPTIONS = ["bbox=None is outside the claimed domain", "hops within 1e-6 m of range_max admit both flags"]
EXHAUSTIVE_ALL = False

BOX = (-20.0, 10.0, 30.0, 40.5)


def points(box):
    minx, miny, maxx, maxy = box
    cx, cy = (minx + maxx) / 2, (miny + maxy) / 2
    inside = [(cx, cy), (minx + 0.25, miny + 0.25), (cx + 0.001, cy), (cx, cy + 0.0001)]
    edge = [(minx, miny), (maxx, maxy), (minx, maxy), (maxx, miny), (minx, cy), (maxx, cy), (cx, miny), (cx, maxy)]
    outside = [(minx - 0.25, cy), (maxx + 0.25, cy), (cx, miny - 0.25), (cx, maxy + 0.25), (179.75, cy), (-179.75, cy),
               (cx, -89.5), (cx, 89.5)]
    # positions are valid coordinates -- except for boxes that themselves reach beyond the globe (0..360 longitudes): there the
    # box is what the operator said, and a longitude of 200 inside it is inside it
    beyond = maxx > 180.0 or minx < -180.0
    ok = lambda p: -90.0 <= p[1] <= 90.0 and (beyond and -360.0 <= p[0] <= 360.0 or -180.0 <= p[0] <= 180.0)  # noqa: E731
    if beyond:
        inside = inside + [(min(maxx, 200.0), cy), (min(maxx, 359.0) - 0.5, cy)]
    return [p for p in inside if ok(p)], [p for p in edge if ok(p)], [p for p in outside if ok(p)]


def loc_case(ctx, lon, lat, box, rmax, tag, boxkind) -> None:
    kw = {"lon": gen.carried(ctx.rng, lon, poisons=(0.0, 5.0, 179.0, -100.0), p_list=0.0),
          "lat": gen.carried(ctx.rng, lat, poisons=(0.0, 5.0, 80.0, -45.0), p_list=0.0)}
    if box is not None:
        kw["bbox"] = gen.ptype(ctx.rng, box) if ctx.rng.random() < 0.5 else box
    if rmax is not None or ctx.rng.random() < 0.3:
        kw["range_max"] = gen.ptype(ctx.rng, rmax)
    if ctx.rng.random() < 0.15:
        kw["lon"], kw["lat"] = list(lon), list(lat)
    mbox = tuple(box) if box is not None else (-180, -90, 180, 90)
    o, _ = client.expect(ctx, "C14", "qartod.location_test", kw,
                         lambda: models.location(lon, lat, mbox, rmax),
                         logical={"lon": lon, "lat": lat, "bbox": box, "range_max": rmax}, hist="location")
    ctx.count("location.calls")
    fs = gen.flagset(o)
    both = [None if (a is None and b is None) else 1 if (a is None or b is None) else 0 for a, b in zip(lon, lat)]
    mc = "none" if all(v == 0 for v in both) else "mixed"
    rc = "none" if rmax is None else "zero" if rmax == 0 else "huge" if rmax >= 1e7 else "mid"
    ctx.case(f"{tag}|{boxkind}|r{rc}|n{gen.nclass(len(lon))}|m{mc}|{fs}", trivial=fs in ("1", ""),
             sample={"lon": lon, "lat": lat, "bbox": box, "range_max": rmax, "observed": o.brief()})


def run(ctx) -> None:
    rng = ctx.rng
    ctx.require("location.calls", 1000)
    ctx.require("location.fail_over_suspect_cases", 20)
    boxes = [("default", None), ("regular", list(BOX)), ("tuple", BOX), ("point", [5.0, 5.0, 5.0, 5.0]),
             ("line", [-10.0, 0.0, 10.0, 0.0]), ("globe", [-180, -90, 180, 90]), ("int", [0, 0, 10, 10]),
             ("dateline-east", [170.0, -10.0, 180.0, 10.0]), ("dateline-west", [-180.0, -10.0, -170.0, 10.0]),
             ("polar", [-20.0, 80.0, 20.0, 90.0]),
             # edges are compared as the numbers given: an east edge beyond 180 admits no negative longitude, and a box whose
             # west edge lies east of its east edge (or south edge north of its north edge) contains no position at all
             ("east-beyond-180", [170.0, -10.0, 190.0, 10.0]), ("0-360", [0.0, -90.0, 360.0, 90.0]), ("wide", [-20.0, -90.0, 200.0, 90.0]),
             ("inverted-x", [170.0, -10.0, -170.0, 10.0]), ("inverted-y", [-80.0, 60.0, -70.0, 40.0]), ("inverted-xy", [30.0, 40.5, -20.0, 10.0])]

    def hops(lon, lat):
        return [models.geodist(lat[k - 1], lon[k - 1], lat[k], lon[k]) for k in range(1, len(lon))
                if None not in (lon[k], lat[k], lon[k - 1], lat[k - 1])]

    i = 0
    for n in range(0, ctx.pick(5, 6)):
        for pl in itertools.product((0, 1, 2, 3), repeat=n):
            i += 1
            if not ctx.mine(i):
                continue
            boxkind, box = boxes[i % len(boxes)]
            inside, edge, outside = points(tuple(box) if box is not None else (-180.0, -90.0, 180.0, 90.0))
            if box is None or boxkind == "globe":
                outside = []
            pool = inside + edge + outside
            pts = [rng.choice(pool) for _ in range(n)]
            lon = [None if pl[k] in (1, 3) else pts[k][0] for k in range(n)]
            lat = [None if pl[k] in (2, 3) else pts[k][1] for k in range(n)]
            hs = hops(lon, lat)
            rpool = [None, 0, 1.0, 1e7, *(h * f for h in hs for f in (0.999, 1.001))]
            loc_case(ctx, lon, lat, box, rng.choice(rpool), "enum", boxkind)
    ctx.exhaustive.append("location_test: all 4^n lon/lat missing placements for n<=4 (5 thorough)")
    for _ in range(ctx.pick(2500, 12000)):
        boxkind, box = rng.choice(boxes)
        inside, edge, outside = points(tuple(box) if box is not None else (-180.0, -90.0, 180.0, 90.0))
        if box is None or boxkind == "globe":
            outside = []
        n = rng.choice([1, 2, 3, 4, 6, 12, 12, 12, 12, 12, 60, ctx.pick(100, 400)])
        pool = inside * 2 + edge + outside
        pts = [rng.choice(pool) for _ in range(n)]
        tag = "rand"
        if outside and n >= 2 and rng.random() < 0.3:
            # an over-long hop that ends outside the box: FAIL must override SUSPECT
            k = rng.randrange(1, n)
            pts[k - 1], pts[k] = inside[0], rng.choice(outside)
            tag = "fail-over-suspect"
        lon, lat = [p[0] for p in pts], [p[1] for p in pts]
        for k in range(n):
            r = rng.random()
            if tag == "rand" and r < 0.05:
                lon[k] = None
            elif tag == "rand" and r < 0.1:
                lat[k] = None
            elif tag == "rand" and r < 0.14:
                lon[k] = lat[k] = None
        hs = hops(lon, lat)
        rpool = [None, 0, 1.0, 1e7, *(h * f for h in hs for f in (0.5, 0.999, 1.0, 1.001, 2))]
        rmax = rng.choice(rpool)
        if tag == "fail-over-suspect":
            rmax = 1.0
            ctx.count("location.fail_over_suspect_cases")
        loc_case(ctx, lon, lat, box, rmax, tag, boxkind)

    if ctx.shard == 0:
        n = ctx.pick(17001, 40001)
        lon = [20.0 + 0.0001 * (k % 11) for k in range(n)]
        lat = [30.0 + 0.0001 * (k % 7) for k in range(n)]
        for b in (4096, 8192, 16384, 32768):
            if b + 2 < n:
                lon[b] = 45.0  # outside the box after an over-long hop
                lat[b + 2] = None
        loc_case(ctx, lon, lat, list(BOX), 5000.0, "huge", "regular")
    # single-precision fixes a hair (one float32 ulp and less) inside / outside box edges that float32 cannot represent:
    # "strictly outside" is decided on the values as given, however close to the edge
    for _ in range(ctx.pick(60, 400)):
        box = (-80.1 + rng.choice([0, 0.3]), 40.1, -70.1 + rng.choice([0, 1e-7, 0.2]), 59.9 + rng.choice([0, 1e-6]))
        cx, cy = np.float32(-75.0), np.float32(50.0)
        cand = []
        for e, axis in ((box[0], 0), (box[2], 0), (box[1], 1), (box[3], 1)):
            f = np.float32(e)
            for v in (f, np.nextafter(f, np.float32(-1e9)), np.nextafter(f, np.float32(1e9))):
                cand.append((v, cy) if axis == 0 else (cx, v))
        pts = [rng.choice(cand) for _ in range(rng.choice([1, 3, 6, 12]))] + [(cx, cy)]
        rng.shuffle(pts)
        lon32 = np.array([p[0] for p in pts], dtype=np.float32)
        lat32 = np.array([p[1] for p in pts], dtype=np.float32)
        for prec, lo_, la_ in (("float32", lon32, lat32), ("float64", lon32.astype(np.float64), lat32.astype(np.float64))):
            llon, llat = [float(v) for v in lo_], [float(v) for v in la_]
            kw = {"lon": lo_, "lat": la_, "bbox": list(box) if rng.random() < 0.5 else box}
            o, _ = client.expect(ctx, "C14", "qartod.location_test", kw, lambda: models.location(llon, llat, box, None),
                                 logical={"lon": llon, "lat": llat, "bbox": list(box), "carrier": prec,
                                          "note": "fixes within a float32 ulp of a box edge"}, hist="location")
            ctx.count("location.calls")
            ctx.count("location.hairline_edge_calls")
            ctx.case(f"hairline-edge|{prec}|{gen.flagset(o)}")
    # gridded positions (N-D lon / lat) in C order, Fortran order, as transposed views, and mixed: the flag of a position sits
    # at that position's index, hops follow the C-order sequence of the elements
    for _ in range(ctx.pick(40, 200)):
        r_, c_ = rng.choice([(2, 3), (3, 2), (2, 2), (3, 4), (1, 4), (1, 6), (5, 1)])
        box = [10.0, 40.0, 12.0, 42.0]
        flat_lon = [rng.choice([9.5, 10.0, 10.5, 11.0, 12.0, 12.5, None]) for _ in range(r_ * c_)]
        flat_lat = [rng.choice([39.5, 40.0, 41.0, 42.0, 42.5, None]) for _ in range(r_ * c_)]
        rm = rng.choice([None, None, 60000.0]) if r_ > 1 else 60000.0
        want = [sorted(s_) for s_ in models.location(flat_lon, flat_lat, tuple(box), rm)]
        lo2, la2 = gen.arr(flat_lon).reshape(r_, c_), gen.arr(flat_lat).reshape(r_, c_)
        lays = {"C": lambda a: np.ascontiguousarray(a), "F": lambda a: np.asfortranarray(a), "T-view": lambda a: np.ascontiguousarray(a.T).T}
        for ln, lt in (("C", "C"), ("F", "F"), ("C", "F"), ("T-view", "T-view"), ("F", "C")):
            kw = {"lon": lays[ln](lo2), "lat": lays[lt](la2), "bbox": box}
            if rm is not None:
                kw["range_max"] = rm
            o = client.invoke("qartod.location_test", kw)
            ctx.count("location.calls")
            ctx.count("location.grid_layout_calls")
            ctx.case(f"grid|{ln}{lt}|{r_}x{c_}|r{rm is not None}")
            got = None if o.kind != "return" or o.flags is None or np.shape(o.flags) != (r_, c_) else np.asarray(o.flags).reshape(-1).tolist()
            if got is None or any(g not in w_ for g, w_ in zip(got, want)):
                ctx.violation(f"C14:grid-layout:{ln}{lt}", {"kind": "call", "func": "qartod.location_test", "layout(lon,lat)": [ln, lt],
                                                            "shape": [r_, c_], "lon(C order)": flat_lon, "lat(C order)": flat_lat, "bbox": box,
                                                            "range_max": rm, "admissible(C order)": want, "observed": o.brief()})
    # history: the same coordinate values with and without some fixes masked, one call right after the other
    for _ in range(ctx.pick(150, 1000)):
        n = rng.choice([3, 4, 5, 8])
        lonv = [10.0 + rng.choice([0.0, 0.001, 0.5, 3.0]) * k for k in range(n)]
        latv = [50.0 + rng.choice([0.0, 0.0005, 0.25]) * k for k in range(n)]
        msk = [rng.random() < 0.35 for _ in range(n)]
        hs = hops(lonv, latv)
        rmax = rng.choice([h * f for h in hs for f in (0.5, 0.999, 1.001)] or [1000.0])
        raw = {"lon": np.array(lonv), "lat": np.array(latv), "range_max": rmax}
        masked = {"lon": np.ma.MaskedArray(np.array(lonv), mask=msk), "lat": np.ma.MaskedArray(np.array(latv), mask=msk),
                  "range_max": rmax}
        lm = [None if m else v for v, m in zip(lonv, msk)]
        tm = [None if m else v for v, m in zip(latv, msk)]
        order = [("raw", raw, lonv, latv), ("masked", masked, lm, tm)]
        if rng.random() < 0.5:
            order.reverse()
        for which, kw, lo_, la_ in order:
            client.expect(ctx, "C14", "qartod.location_test", kw, lambda: models.location(lo_, la_, (-180, -90, 180, 90), rmax),
                          logical={"lon": lo_, "lat": la_, "range_max": rmax, "carrier": which,
                                   "note": "same coordinate values as the neighbouring call, different mask"}, hist="location")
            ctx.count("location.calls")
            ctx.count("location.same_values_different_mask_calls")
            ctx.case(f"history|{which}|{'first' if kw is order[0][1] else 'second'}|n{gen.nclass(n)}")
    if ctx.shard == 0:
        bad = [({"lon": np.array([1.0, 2.0]), "lat": np.array([1.0])}, "shape"),
               ({"lon": np.array([1.0]), "lat": np.array([1.0, 2.0, 3.0])}, "shape"),
               ({"lon": np.array([[1.0, 2.0]]), "lat": np.array([1.0, 2.0])}, "shape"),
               ({"lon": np.array([1.0]), "lat": np.array([1.0]), "bbox": [0, 0, 1]}, "bbox"),
               ({"lon": np.array([1.0]), "lat": np.array([1.0]), "bbox": [0, 0, 1, 1, 2]}, "bbox"),
               ({"lon": np.array([1.0]), "lat": np.array([1.0]), "bbox": ()}, "bbox"),
               ({"lon": np.array([1.0]), "lat": np.array([1.0]), "bbox": np.array([0, 0, 1, 1])}, "bbox-ndarray"),
               ({"lon": np.array([1.0]), "lat": np.array([1.0]), "bbox": "abcd"}, "bbox")]
        for kw, kind in bad:
            o = client.invoke("qartod.location_test", kw)
            ctx.count("location.calls")
            ctx.case(f"reject|{kind}|{len(kw.get('bbox', []))}")
            if o.kind != "raise":
                ctx.violation(f"C14:malformed-input-accepted:{kind}",
                              {"kind": "call", "func": "qartod.location_test", "case": core_json(kw),
                               "observed": o.brief()})


def core_json(kw):
    from vfw import core

    return core.jsonable(kw)
