"""C02 — a missing observation is never reported as evaluated (DESIGN §4 C02)."""
from __future__ import annotations

import itertools

import numpy as np

from vfw import client, core, gen

LEVEL = "exploration"
SHARDS = {"quick": 4, "thorough": 16}
ANCHORS = [("qartod.py", "location_test"), ("qartod.py", "gross_range_test"), ("qartod.py", "ClimatologyConfig.check"),
           ("qartod.py", "spike_test"), ("qartod.py", "rate_of_change_test"), ("qartod.py", "flat_line_test"),
           ("qartod.py", "attenuated_signal_test"), ("qartod.py", "density_inversion_test"), ("argo.py", "speed_test"),
           ("axds.py", "valid_range_test")]
RULE = ("every test that handles missing data x all 2^n placements of missing values in the data for n<=6 (9 thorough), "
        "jointly in data and depth (4^n) for n<=4 (6), all 4^n lon/lat placements for n<=4 (6) x missing markers "
        "{NaN in ndarray, None in list, masked element over NaN, masked element over a finite GOOD-looking value, explicit mask plus unmasked NaN, mask over the real reading right after the unmasked call} x a "
        "parameter grid per test that makes GOOD, SUSPECT and FAIL reachable at the present neighbours (for "
        "climatology every member shape: absolute / month / week / dayofyear / quarter x +-zspan x +-fspan x 1-2 "
        "members).  Monitor, per index: missing => flag in {MISSING} (or UNKNOWN where the test is undefined anyway); "
        "present and MISSING => a value the test needs there is missing.  distinct = (mode, marker, n, number of "
        "missing, set of flags); trivial = nothing missing.")
ASSUMPTIONS = ["needs(i): spike {i-1,i+1}; rate of change / speed / hop {i-1}; own coordinates for position tests; density "
               "{rho,z at i and i-1}; climatology {depth at i}; none for range tests, flat line, attenuation",
               "for position tests 'missing' means both coordinates missing"]
EXHAUSTIVE_ALL = False

MARKERS = ["nan", "none", "masked-nan", "masked-finite", "masked-mixed", "masked-real"]
G, U, S, F, M = 1, 2, 3, 4, 9


POISONS = [1.0, 100.0, -50.0, 0.0, 1.75]


def carrier(vals, miss, marker, poison=None):
    """vals: floats; miss: bools.  masked-finite hides GOOD-, SUSPECT- and FAIL-looking values
    under the mask (rotating with the case), so reading under a mask shows up whatever the rule."""
    if poison is None:
        poison = POISONS[(len(vals) + sum(miss)) % len(POISONS)]
    elif marker == "masked-finite":
        poison = poison + [0.0, 40.0, -40.0][(len(vals) + sum(miss)) % 3]
    if marker == "nan":
        return np.array([np.nan if m else v for v, m in zip(vals, miss)], dtype=float)
    if marker == "none":
        return [None if m else v for v, m in zip(vals, miss)]
    if marker == "masked-real":
        # an upstream check masked some readings and left their values in the buffer; the SAME buffer was run unmasked
        # just before (judge() issues that call first), so only the mask tells the two calls apart
        return np.ma.MaskedArray(np.array(vals, dtype=float), mask=np.array(miss, dtype=bool) if len(miss) else False)
    if marker == "masked-mixed":
        # a reader masked the fill values, the instrument also wrote NaN: every other missing element is an unmasked NaN
        odd = [m and (sum(miss[:k]) % 2 == 1) for k, m in enumerate(miss)]
        data = np.array([np.nan if o else poison if m else v for v, m, o in zip(vals, miss, odd)], dtype=float)
        return np.ma.MaskedArray(data, mask=np.array([m and not o for m, o in zip(miss, odd)], dtype=bool) if len(miss) else False)
    data = np.array([(np.nan if marker == "masked-nan" else poison) if m else v for v, m in zip(vals, miss)], dtype=float)
    ma = np.ma.MaskedArray(data, mask=np.array(miss, dtype=bool) if len(miss) else False)
    present = [v for v, m in zip(vals, miss) if not m]
    if present and (len(vals) + sum(miss)) % 2:
        ma.fill_value = present[(len(vals) + sum(miss)) % len(present)]  # the fill value is also a real observation
    return ma


def T(n, step=60):
    return gen.times(gen.regular(n, step))


def zig(n):
    """values that make GOOD / SUSPECT / FAIL all occur at present points for the grids below"""
    base = [0.0, 3.0, 0.25, 0.0, 1.5, 0.0, 0.0, 4.0, 0.5]
    return [base[i % len(base)] for i in range(n)]


CLIM = {}
for kind, tspan in (("abs", ["2021-03-01T00:00:00", "2021-03-01T00:03:00"]), ("month", [3, 3]), ("week", [8, 9]),
                    ("dayofyear", [60, 60]), ("quarter", [1, 1])):
    for z in (False, True):
        for f in (False, True):
            m = {"tspan": tspan, "vspan": [0, 1]}
            if kind != "abs":
                m["period"] = kind
            if z:
                m["zspan"] = [0, 2]
            if f:
                m["fspan"] = [-1, 2]
            CLIM[f"{kind}{'+z' if z else ''}{'+f' if f else ''}"] = [m]
CLIM["two-members"] = [CLIM["month+f"][0], {"tspan": [1, 12], "period": "month", "vspan": [0, 0.3], "zspan": [1, 3]}]
CLIM["abs+month"] = [CLIM["abs+z+f"][0], CLIM["quarter"][0]]


def judge(ctx, mode, fname, kw, miss, needs, undefined, case) -> None:
    if case.get("marker") == "masked-real":
        raw = {k: (np.array(np.ma.getdata(v)) if isinstance(v, np.ma.MaskedArray) else v) for k, v in kw.items()}
        client.invoke(fname, raw, check_purity=False)  # history: the raw buffers first
        ctx.count("c02.raw_then_masked_histories")
    o = client.invoke(fname, kw)
    ctx.count("c02.calls")
    n = len(miss)
    if o.kind == "raise":
        ctx.violation(f"C02:raised:{fname}:{o.exc_type}@{o.where}", {"kind": "call", **case, "observed": o.brief()})
        return
    fl = o.flags.reshape(-1).tolist()
    if len(fl) != n:
        ctx.violation(f"C02:length:{fname}", {"kind": "call", **case, "observed": o.brief()})
        return
    ctx.flag_hist(mode.split("|")[0], fl)
    for i in range(n):
        ctx.count("c02.indices_judged")
        if miss[i]:
            ok = fl[i] == M or (fl[i] == U and undefined(i))
            if not ok:
                ctx.violation(f"C02:missing-reported-as-evaluated:{fname}:got{fl[i]}",
                              {"kind": "call", **case, "index": i, "flags": fl,
                               "rule": "missing => MISSING (or UNKNOWN where the test is undefined)"})
                return
        elif fl[i] == M and not needs(i):
            ctx.violation(f"C02:present-flagged-MISSING-without-cause:{fname}",
                          {"kind": "call", **case, "index": i, "flags": fl})
            return
    nm = sum(miss)
    ctx.case(f"{mode}|{case['marker']}|n{n}|k{min(nm, 3)}|{''.join(map(str, sorted(set(fl))))}", trivial=nm == 0,
             sample={**case, "flags": fl})


def run(ctx) -> None:
    rng = ctx.rng
    ctx.require("c02.calls", 3000)
    ctx.require("c02.indices_judged", 10000)
    nmax = ctx.pick(6, 9)
    i = 0
    # ---- single-input tests: all 2^n placements x markers
    for n in range(0, nmax + 1):
        for pl in itertools.product((False, True), repeat=n):
            i += 1
            if not ctx.mine(i):
                continue
            miss = list(pl)
            vals = zig(n)
            for marker in MARKERS:
                inp = lambda: carrier(vals, miss, marker)  # noqa: E731
                case = {"values": vals, "missing": [int(m) for m in miss], "marker": marker}
                none = lambda k: False  # noqa: E731
                ends = lambda k: k in (0, n - 1)  # noqa: E731
                judge(ctx, "gross_range", "qartod.gross_range_test",
                      {"inp": inp(), "fail_span": [0, 2], "suspect_span": [0, 1]}, miss, none, none, case)
                if marker != "none":
                    judge(ctx, "valid_range", "axds.valid_range_test", {"inp": inp(), "valid_span": (0, 2)}, miss, none,
                          none, case)
                for meth in ("average", "differential"):
                    for st_, ft_ in ((0.2, 2), (None, None), (None, 2), (0.2, None)):
                        p_ = {"method": meth}
                        if st_ is not None:
                            p_["suspect_threshold"] = st_
                        if ft_ is not None:
                            p_["fail_threshold"] = ft_
                        judge(ctx, f"spike-{meth}|s{st_}f{ft_}", "qartod.spike_test", {"inp": inp(), **p_}, miss,
                              lambda k: (k > 0 and miss[k - 1]) or (k < n - 1 and miss[k + 1]), ends, case)
                judge(ctx, "rate_of_change", "qartod.rate_of_change_test", {"inp": inp(), "tinp": T(n), "threshold": 0.01},
                      miss, lambda k: k > 0 and miss[k - 1], none, case)
                if n >= 3:
                    # the time axis need not be sorted for the missing rule to hold (rotations / 3-cycles of the order)
                    for perm_kind in ("rotated", "cycle3"):
                        secs = gen.regular(n, 60)
                        if perm_kind == "rotated":
                            secs = secs[1:] + secs[:1]
                        else:
                            secs = list(secs)
                            secs[0], secs[1], secs[2] = secs[2], secs[0], secs[1]
                        judge(ctx, f"rate_of_change|time-{perm_kind}", "qartod.rate_of_change_test",
                              {"inp": inp(), "tinp": gen.times(secs), "threshold": 0.01}, miss, lambda k: k > 0 and miss[k - 1],
                              none, {**case, "t": secs})
                judge(ctx, "flat_line", "qartod.flat_line_test",
                      {"inp": inp(), "tinp": T(n), "suspect_threshold": 60, "fail_threshold": 120, "tolerance": 2}, miss,
                      none, none, case)
                # (a real-time chunk shorter than the durations asked for: nothing can be flat-lined, missing is still MISSING)
                judge(ctx, "flat_line|durations-longer-than-the-record", "qartod.flat_line_test",
                      {"inp": inp(), "tinp": T(n), "suspect_threshold": 3600, "fail_threshold": 7200, "tolerance": 2}, miss,
                      none, none, case)
                for kind in ("std", "range"):
                    judge(ctx, f"attenuated-{kind}-whole", "qartod.attenuated_signal_test",
                          {"inp": inp(), "tinp": T(n), "suspect_threshold": 5, "fail_threshold": 1, "check_type": kind},
                          miss, none, lambda k: all(miss), case)
                    if n:
                        judge(ctx, f"attenuated-{kind}-window", "qartod.attenuated_signal_test",
                              {"inp": inp(), "tinp": T(n), "suspect_threshold": 5, "fail_threshold": 1, "check_type": kind,
                               "test_period": 150, "min_obs": 2}, miss, none,
                              lambda k: sum(1 for j in range(max(0, k - 2), k + 1) if not miss[j]) < 2, case)
                # climatology: every member shape (depth present everywhere)
                cks = sorted(CLIM)
                for ck in (cks if n <= 3 else rng.sample(cks, 4)):
                    z = [float(k % 3) for k in range(n)]
                    judge(ctx, f"climatology-{ck}", "qartod.climatology_test",
                          {"config": CLIM[ck], "inp": inp(), "tinp": T(n), "zinp": np.array(z)}, miss, none,
                          lambda k: True, {**case, "members": ck, "depth": z})
    ctx.exhaustive.append(f"all 2^n data-missing placements for n<=7 x 4 markers x 10 single-input modes + 22 climatology member shapes (n<=3: all shapes)"
                          if ctx.thorough else "all 2^n data-missing placements for n<=6 x 4 markers x 10 single-input modes + climatology member shapes")
    # ---- two-input tests: all 4^n joint placements
    n2 = ctx.pick(4, 6)
    for n in range(0, n2 + 1):
        for pl in itertools.product((0, 1, 2, 3), repeat=n):
            i += 1
            if not ctx.mine(i):
                continue
            ma = [p in (1, 3) for p in pl]
            mb = [p in (2, 3) for p in pl]
            for marker in MARKERS:
                case = {"placement(0 none,1 first,2 second,3 both)": list(pl), "marker": marker}
                rho = [1025.0 + (0.5 if k % 2 else 0.0) - 0.25 * (k // 2) for k in range(n)]
                z = [float(k) for k in range(n)]
                judge(ctx, "density_inversion", "qartod.density_inversion_test",
                      {"inp": carrier(rho, ma, marker, 1025.0), "zinp": carrier(z, mb, marker, 2.0),
                       **[{"suspect_threshold": 0.3, "fail_threshold": -0.3}, {}, {"suspect_threshold": 0.3}, {"fail_threshold": 0.3}][len(pl) % 4]},
                      [a for a in ma],  # the tested observation is the density
                      lambda k: mb[k] or (k > 0 and (ma[k - 1] or mb[k - 1])),
                      lambda k: n == 1 or mb[k] or (k > 0 and (ma[k - 1] or mb[k - 1])), {**case, "rho": rho, "z": z})
                # climatology with missing depth as well
                for ck in rng.sample(sorted(CLIM), 3):
                    vals = zig(n)
                    judge(ctx, f"climatology-{ck}-zmiss", "qartod.climatology_test",
                          {"config": CLIM[ck], "inp": carrier(vals, ma, marker), "tinp": T(n),
                           "zinp": carrier([float(k % 3) for k in range(n)], mb, marker, 1.0)}, ma,
                          lambda k: mb[k], lambda k: True, {**case, "members": ck, "values": vals})
                lon = [10.0 + 0.001 * k if k % 3 else 10.0 + 2.0 * k for k in range(n)]
                lat = [50.0 + (0.0 if k % 2 else 0.5) for k in range(n)]
                both = [a and b for a, b in zip(ma, mb)]
                judge(ctx, "location", "qartod.location_test",
                      {"lon": carrier(lon, ma, marker, 10.0), "lat": carrier(lat, mb, marker, 50.0),
                       "bbox": [9, 49, 13, 51], "range_max": 5000.0}, both,
                      lambda k: ma[k] or mb[k], lambda k: False, {**case, "lon": lon, "lat": lat})
                if n and sum(pl) % 3 == 1:
                    # a longitude written in the 0..360 convention is simply a number outside a -180..180 box; the fixes
                    # with nothing recorded are still the MISSING ones
                    lonx = [v + (190.0 if k % 2 == 0 else 0.0) for k, v in enumerate(lon)]
                    judge(ctx, "location|lon-0-360", "qartod.location_test",
                          {"lon": carrier(lonx, ma, marker, 10.0), "lat": carrier(lat, mb, marker, 50.0),
                           **([{"bbox": [9, 49, 13, 51]}, {}][sum(pl) % 2])}, both,
                          lambda k: ma[k] or mb[k], lambda k: False, {**case, "lon": lonx, "lat": lat})
                judge(ctx, "speed", "argo.speed_test",
                      {"lon": carrier(lon, ma, marker, 10.0), "lat": carrier(lat, mb, marker, 50.0),
                       # (every third placement: pairs of fixes share a time stamp -- nothing is missing there)
                       "tinp": T(n) if len(pl) and sum(pl) % 3 else gen.times([gen.T0 + 60 * (k // 2) for k in range(n)]),
                       "suspect_threshold": 1, "fail_threshold": 1000}, both,
                      lambda k: ma[k] or mb[k] or (k > 0 and (ma[k - 1] or mb[k - 1])), lambda k: k == 0,
                      {**case, "lon": lon, "lat": lat})
    ctx.exhaustive.append(f"all 4^n joint placements for n<={n2} x 4 markers for density inversion, climatology+depth, location, speed")
    # ---- position grids (N-D): every placement over a 2x2 grid, lon and lat in the same or in different memory layouts
    for pl in itertools.product((0, 1, 2, 3), repeat=4):
        i += 1
        if not ctx.mine(i):
            continue
        ma = [p in (1, 3) for p in pl]
        mb = [p in (2, 3) for p in pl]
        lonv, latv = [10.0, 10.5, 11.0, 11.5], [50.0, 50.25, 50.5, 50.75]
        for lay in ("CC", "CF", "FC", "FF"):
            lo = carrier(lonv, ma, "nan").reshape(2, 2)
            la = carrier(latv, mb, "nan").reshape(2, 2)
            lo = np.asfortranarray(lo) if lay[0] == "F" else lo
            la = np.asfortranarray(la) if lay[1] == "F" else la
            judge(ctx, f"location-grid-{lay}", "qartod.location_test", {"lon": lo, "lat": la, "bbox": [9, 49, 13, 51]},
                  [a and b for a, b in zip(ma, mb)], lambda k: ma[k] or mb[k], lambda k: False,
                  {"placement(0 none,1 first,2 second,3 both)": list(pl), "marker": "nan", "layout(lon,lat)": lay})
    # ---- valid_range_test on plain lists / tuples whose type has to be worked out by the function (no dtype argument):
    #      python datetimes, datetime64 scalars, ISO strings, epoch numbers -- a missing entry is MISSING in every form
    import datetime as _dt  # noqa: PLC0415

    t00 = _dt.datetime(2021, 3, 1, 0, 0, 0)
    for n in range(1, 6):
        for pl in itertools.product((False, True), repeat=n):
            i += 1
            if not ctx.mine(i):
                continue
            miss = list(pl)
            secs = [2 * k for k in range(n)]
            forms = {
                "list-of-datetimes": ([None if m else t00 + _dt.timedelta(seconds=s_) for s_, m in zip(secs, miss)],
                                      (t00 + _dt.timedelta(seconds=2), t00 + _dt.timedelta(seconds=6))),
                "list-of-datetime64": ([np.datetime64("NaT") if m else np.datetime64(t00 + _dt.timedelta(seconds=s_)) for s_, m in zip(secs, miss)],
                                       (np.datetime64(t00 + _dt.timedelta(seconds=2)), np.datetime64(t00 + _dt.timedelta(seconds=6)))),
                "list-of-iso-strings": ([None if m else (t00 + _dt.timedelta(seconds=s_)).isoformat() for s_, m in zip(secs, miss)],
                                        ((t00 + _dt.timedelta(seconds=2)).isoformat(), (t00 + _dt.timedelta(seconds=6)).isoformat())),
                "tuple-of-epoch-numbers": (tuple(float("nan") if m else float(s_) for s_, m in zip(secs, miss)), (2.0, 6.0)),
                "list-of-numbers-with-None": ([None if m else float(s_) for s_, m in zip(secs, miss)], (2.0, 6.0)),
            }
            for fname_, (inp_, span_) in forms.items():
                for extra in ({}, {"start_inclusive": False, "end_inclusive": True}):
                    judge(ctx, f"valid_range|{fname_}", "axds.valid_range_test", {"inp": inp_, "valid_span": span_, **extra}, miss,
                          lambda k: False, lambda k: False, {"missing": [int(m) for m in miss], "marker": fname_, "seconds": secs, **extra})
                    ctx.count("c02.valid_range_guessed_type_calls")
    # ---- a platform that does not move: two fixes at the very same (fully recorded) position, at latitudes all over the
    #      globe -- nothing is missing, so nothing is MISSING (a distance formula that loses its footing at zero is)
    for k in range(ctx.shard, 9000, 11 * ctx.nshards):
        la = 0.01 * k * (1 if k % 2 else -1)
        lo_ = -179.0 + (k % 358)
        lon_, lat_ = [lo_, lo_, lo_ + 0.01, lo_ + 0.01], [la, la, la, la]
        none4 = [False] * 4
        judge(ctx, "speed|stationary-fixes", "argo.speed_test",
              {"lon": np.array(lon_), "lat": np.array(lat_), "tinp": T(4), "suspect_threshold": 1, "fail_threshold": 1000}, none4,
              lambda k_: False, lambda k_: k_ == 0, {"missing": [0] * 4, "marker": "none", "lon": lon_, "lat": lat_})
        judge(ctx, "location|stationary-fixes", "qartod.location_test",
              {"lon": np.array(lon_), "lat": np.array(lat_), "range_max": 5000.0}, none4,
              lambda k_: False, lambda k_: False, {"missing": [0] * 4, "marker": "none", "lon": lon_, "lat": lat_})
        ctx.count("c02.stationary_fix_calls", 2)
    _ = core
