"""C13 — profile tests: both points of an inverted pair, either cast direction (DESIGN §4 C13)."""
from __future__ import annotations

import itertools

import numpy as np

from vfw import client, gen, models

LEVEL = "exploration"
SHARDS = {"quick": 4, "thorough": 16}
ANCHORS = [("qartod.py", "density_inversion_test"), ("argo.py", "pressure_increasing_test")]
RULE = ("density_inversion_test: down/up/down-up/stationary/repeated-depth profiles of 0..7 points whose density steps "
        "are multiples of 1/4 lying exactly on, above and below the thresholds; threshold pairs incl. one or both "
        "absent, fail>suspect and fail<suspect, negative/zero/positive; all 4^n (density, depth) missing placements "
        "for n<=4 (5 thorough); mirror relation f(rev rho, rev z) = rev f(rho, z) on every profile without missing "
        "values.  pressure_increasing_test: all integer pressure sequences of length 1..5 over {0,1,2,3} plus seeded "
        "longer ones (mean step != 0), list/int/float carriers.  distinct = (function, profile kind, length class, "
        "missing class, threshold class, set of flags); trivial = all GOOD.")
ASSUMPTIONS = ["pressure_increasing_test receives NaN-free input (it documents no missing-data handling)",
               "profiles whose mean pressure step is exactly 0 have no overall direction and are not judged"]
EXHAUSTIVE_ALL = False


def tcls(st, ft):
    def c(v):
        return "none" if v is None else "neg" if v < 0 else "zero" if v == 0 else "pos"
    return f"{c(st)},{c(ft)}" + ("" if None in (st, ft) else ",f>s" if ft > st else ",f<s" if ft < st else ",f=s")


def dens_case(ctx, rho, z, st, ft, kind, tag) -> None:
    kw = {"inp": gen.carried(ctx.rng, rho, poisons=(1000.0, 1050.0, 1025.0)), "zinp": gen.carried(ctx.rng, z, poisons=(0.0, 500.0, -5.0)),
          "suspect_threshold": gen.ptype(ctx.rng, st), "fail_threshold": gen.ptype(ctx.rng, ft)}
    o, adm = client.expect(ctx, "C13", "qartod.density_inversion_test", kw,
                           lambda: models.density_inversion(rho, z, st, ft),
                           logical={"rho": rho, "z": z, "suspect_threshold": st, "fail_threshold": ft},
                           hist="density_inversion")
    ctx.count("density.calls")
    fs = gen.flagset(o)
    both = [None if (a is None or b is None) else 0 for a, b in zip(rho, z)]
    ctx.case(f"dens|{tag}|{kind}|n{gen.nclass(len(rho))}|m{gen.mclass(both) if rho else 'none'}|{tcls(st, ft)}|{fs}",
             trivial=fs in ("1", ""),
             sample={"rho": rho, "z": z, "suspect_threshold": st, "fail_threshold": ft, "observed": o.brief()})
    # mirror relation (shape B): upcast vs downcast
    if o.kind == "return" and len(rho) >= 2 and None not in rho and None not in z:
        kw2 = {"inp": gen.arr(rho[::-1]), "zinp": gen.arr(z[::-1]), "suspect_threshold": st, "fail_threshold": ft}
        o2 = client.invoke("qartod.density_inversion_test", kw2)
        ctx.count("density.mirror_pairs")
        if o2.kind != "return" or o2.flags.tolist()[::-1] != o.flags.tolist():
            ctx.violation("C13:mirror-relation", {"kind": "relation", "func": "qartod.density_inversion_test",
                                                  "case": {"rho": rho, "z": z, "suspect_threshold": st,
                                                           "fail_threshold": ft},
                                                  "forward": o.brief(), "reversed_input": o2.brief()})


def profile(rng, n):
    kind = rng.choice(["down", "up", "downup", "stationary", "repeated", "random", "deep-fine"])
    z, cur = [], rng.choice([0.0, 5.0, 100.0])
    if kind == "deep-fine":
        cur = rng.choice([2500.0, 6000.0, 10900.0])  # centimetre steps at abyssal depths are depth changes all the same
    fine = rng.choice([0.015625, 0.03125, -0.015625])
    for k in range(n):
        if kind == "deep-fine":
            cur += fine if rng.random() < 0.8 else 0.0
        elif kind == "down":
            cur += rng.choice([1.0, 2.5])
        elif kind == "up":
            cur -= rng.choice([1.0, 2.5])
        elif kind == "downup":
            cur += 1.0 if k < n // 2 else -1.0
        elif kind == "stationary":
            pass
        elif kind == "repeated":
            cur += rng.choice([0.0, 1.0])
        else:
            cur += rng.choice([-2.0, -1.0, 0.0, 1.0, 2.0])
        z.append(cur)
    rho, r = [], 1025.0
    for k in range(n):
        r += rng.choice([-0.5, -0.25, 0.0, 0.0, 0.25, 0.5])
        rho.append(r)
    return kind, rho, z


THR = [None, -0.5, -0.25, 0, 0.25, 0.5]


def core_json(v):
    from vfw import core  # noqa: PLC0415

    return core.jsonable(v)


def run(ctx) -> None:
    rng = ctx.rng
    ctx.require("density.calls", 1000)
    ctx.require("density.mirror_pairs", 200)
    ctx.require("pressure.calls", 300)
    i = 0
    for n in range(0, ctx.pick(5, 6)):
        for pl in itertools.product((0, 1, 2, 3), repeat=n):
            i += 1
            if not ctx.mine(i):
                continue
            for _ in range(ctx.pick(2, 4)):
                kind, rho, z = profile(rng, n)
                rho = [None if pl[k] in (1, 3) else rho[k] for k in range(n)]
                z = [None if pl[k] in (2, 3) else z[k] for k in range(n)]
                dens_case(ctx, rho, z, rng.choice(THR), rng.choice(THR), kind, "enum")
    ctx.exhaustive.append("density_inversion_test: all 4^n (density, depth) missing placements for n<=4 (5 thorough)")
    for _ in range(ctx.pick(1500, 8000)):
        n = rng.choice([2, 3, 4, 5, 6, 7, 15, 15, 100, ctx.pick(300, 1500)])
        kind, rho, z = profile(rng, n)
        if rng.random() < 0.3:
            for k in range(n):
                r = rng.random()
                if r < 0.08:
                    rho[k] = None
                elif r < 0.16:
                    z[k] = None
        dens_case(ctx, rho, z, rng.choice(THR), rng.choice(THR), kind, "rand")

    if ctx.shard == 0:
        n = 70001
        rho = [1025.0 + 0.001 * k for k in range(n)]
        z = [float(k) for k in range(n)]
        for b in (4096, 16384, 32768, 65536):
            rho[b] -= 2.0
            z[b + 3] = None
        dens_case(ctx, rho, z, -0.5, -1.5, "down", "huge")
    import math
    for _ in range(ctx.pick(60, 400)):
        n = rng.choice([2, 3, 5, 8])
        z = [float(k) * rng.choice([1.0, 2.5]) for k in range(n)]
        if rng.random() < 0.5:
            z = z[::-1]
        rho = [float(np.float32(1025.0 + 0.1 * k - (0.3 if k == n // 2 else 0.0) + rng.random() * 0.01)) for k in range(n)]
        k = rng.randrange(0, n - 1)
        sign = 1 if z[k + 1] > z[k] else -1
        d = sign * (rho[k + 1] - rho[k])  # exact in float64 (both are float32 values)
        thr = math.nextafter(d, math.inf)  # d < thr by one float64 ulp: the pair is below the threshold
        which = rng.choice(["suspect", "fail"])
        st, ft = (thr, None) if which == "suspect" else (None, thr)
        kw = {"inp": np.array(rho, dtype=np.float32), "zinp": np.array(z, dtype=np.float32), "suspect_threshold": st, "fail_threshold": ft}
        client.expect(ctx, "C13", "qartod.density_inversion_test", kw, lambda: models.density_inversion(rho, z, st, ft),
                      logical={"rho(float32 values)": rho, "z": z, "suspect_threshold": st, "fail_threshold": ft,
                               "note": "threshold one float64 ulp above an actual pair difference"}, hist="density_inversion")
        ctx.count("density.calls")
        ctx.case(f"dens|f32-ulp-threshold|{which}|n{n}")
    # pressure_increasing_test
    def pres_case(p, carrier, tag) -> None:
        adm = models.pressure_increasing(p)
        inp = list(p) if carrier == "list" else np.array(p, dtype=float if carrier == "f64" else np.int64)
        if carrier == "i64" and any(v != int(v) for v in p):
            inp = np.array(p, dtype=float)
        o, _ = client.expect(ctx, "C13", "argo.pressure_increasing_test", {"inp": inp}, lambda: adm,
                             logical={"pressure": p, "carrier": carrier}, hist="pressure_increasing")
        ctx.count("pressure.calls")
        if adm is None:
            ctx.count("pressure.mean_step_zero_not_judged")
            # the overall direction is undefined (sign 0); whichever way it is read -- as a downcast, as an upcast, or as
            # "no step moves strictly in direction 0" -- the flags are those of ONE reading, and never all GOOD
            steps_ = [p[k + 1] - p[k] for k in range(len(p) - 1)]
            readings = [[1] + [3 if s_ * sg <= 0 else 1 for s_ in steps_] for sg in (1, -1, 0)]
            got_ = o.flags.reshape(-1).tolist() if o.kind == "return" and o.flags is not None else None
            ctx.count("pressure.mean_step_zero_joint_checks")
            if got_ not in readings:
                ctx.violation("C13:zero-mean-profile:flags-match-no-reading-of-the-direction",
                              {"kind": "call", "func": "argo.pressure_increasing_test", "case": {"pressure": p, "carrier": carrier},
                               "kwargs": {"inp": core_json(inp)}, "observed": o.brief(), "admissible_flag_vectors": readings})
        fs = gen.flagset(o)
        direction = "none" if adm is None else ("down" if sum(p[k + 1] - p[k] for k in range(len(p) - 1)) > 0 else "up") if len(p) > 1 else "single"
        ctx.case(f"pres|{tag}|n{gen.nclass(len(p))}|{direction}|{carrier}|{fs}", trivial=fs == "1",
                 sample={"pressure": p, "observed": o.brief()})

    j = 0
    for n in range(1, 6):
        for p in itertools.product((0, 1, 2, 3), repeat=n):
            j += 1
            if ctx.mine(j):
                pres_case(list(p), ("list", "f64", "i64")[j % 3], "enum")
                if j % 5 == 0:
                    # the same whole-number pressures in every integer dtype, unsigned ones included (an upcast ends
                    # shallower than it starts: a negative overall step, not a wrap-around)
                    adm_ = models.pressure_increasing(list(p))
                    for cname, arr_ in gen.int_carriers(list(p)):
                        client.expect(ctx, "C13", "argo.pressure_increasing_test", {"inp": arr_}, lambda: adm_,
                                      logical={"pressure": list(p), "carrier": cname}, hist="pressure_increasing")
                        ctx.count("pressure.calls")
                        ctx.count("pressure.integer_dtype_calls")
                        ctx.case(f"pres|int-dtype|{cname}|n{n}|{'none' if adm_ is None else 'judged'}")
    ctx.exhaustive.append("pressure_increasing_test: all sequences of length 1..5 over {0,1,2,3}")
    for _ in range(ctx.pick(300, 2000)):
        n = rng.choice([2, 3, 8, 30])
        sgn = rng.choice([1, -1])
        p, cur = [], 50.0
        for _k in range(n):
            cur += sgn * rng.choice([1.0, 1.0, 0.5, 0.0, -0.5, 2.0])
            p.append(cur)
        pres_case(p, rng.choice(["list", "f64"]), "rand")
