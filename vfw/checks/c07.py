"""C07 — every equivalent spelling of a configuration yields the same set of calls (DESIGN §4 C07)."""
from __future__ import annotations

import datetime as dt
import io
import json
from collections import OrderedDict
from pathlib import Path

import numpy as np
import pandas as pd

from vfw import core, plumbing as P

LEVEL = "exploration"
SHARDS = {"quick": 4, "thorough": 16}
ANCHORS = [("config.py", "Config.__init__"), ("config.py", "ContextConfig.__init__"), ("utils.py", "load_config_as_dict"),
           ("utils.py", "load_config_from_xarray"), ("utils.py", "dict_depth"), ("utils.py", "dict_update"),
           ("config.py", "Call.config"), ("config.py", "Config.contexts")]
RULE = ("config trees from a grammar (1-3 contexts, optional window and GeoJSON region (geometry- or feature-based), 1-3 "
        "streams, any subset of the 11 tests with scalar / list / nested (climatology member list) / absent (null) "
        "parameters, sprinkled unknown module and test names) rendered in every carrier that can spell them: dict, "
        "OrderedDict, YAML text (ruamel dump and an independent hand-written block emitter), JSON text, StringIO of "
        "either, str and Path to .yaml/.json files, xarray Dataset with the global attribute (JSON or YAML), with "
        "per-variable attributes, and a NetCDF-3 file of either; x 4 layouts (contexts list, single context, bare "
        "stream mapping, bare module mapping).  Config(source).calls is normalised to a multiset of (stream id, "
        "module, test, canonical kwargs, window instants, region WKB) and compared with the multiset the generator "
        "intended.  distinct = (carrier, layout, #contexts, window?, region kind, has null params?, has unknown "
        "names?); trivial = a one-test dict in contexts layout.")
ASSUMPTIONS = ["tuples = lists, numbers compare numerically, date-like values compare as UTC instants (YAML resolves "
               "unquoted timestamps to datetime, JSON keeps strings)",
               "carriers are only asked for what they can spell: per-variable xarray attributes carry one context without "
               "window/region and no null parameters; bare layouts carry one context without window/region",
               "a bare stream mapping whose tests all have null parameters is recorded finding D19"]
EXHAUSTIVE_ALL = False

TESTS = {
    ("qartod", "gross_range_test"): [{"fail_span": [0, 12], "suspect_span": [1, 11]}, {"fail_span": [-1.5, 30.25]}],
    ("qartod", "location_test"): [{"bbox": [-80, 40, -70, 60]}, {"bbox": [-80, 40, -70, 60], "range_max": 3000.5}],
    ("qartod", "spike_test"): [{"suspect_threshold": 0.5, "fail_threshold": 1}, {"suspect_threshold": 3, "fail_threshold": 8, "method": "differential"}],
    ("qartod", "rate_of_change_test"): [{"threshold": 0.001}, {"threshold": 1e-05}, {"threshold": 2.5e-07}],
    ("qartod", "flat_line_test"): [{"suspect_threshold": 3000, "fail_threshold": 6000, "tolerance": 0.01}],
    ("qartod", "attenuated_signal_test"): [{"suspect_threshold": 5, "fail_threshold": 2.5, "test_period": 3600, "min_obs": None, "check_type": "range"}],
    ("qartod", "density_inversion_test"): [{"suspect_threshold": 0.03, "fail_threshold": None}],
    ("qartod", "climatology_test"): [{"config": [{"vspan": [10, 20], "tspan": [0, 2], "period": "month"},
                                                 {"vspan": [1.5, 22], "fspan": [0, 40], "tspan": ["2020-01-01", "2020-06-30"], "zspan": [0, 100]}]}],
    ("argo", "speed_test"): [{"suspect_threshold": 1, "fail_threshold": 3}],
    ("argo", "pressure_increasing_test"): [None],
    ("axds", "valid_range_test"): [{"valid_span": [0, 100]}, {"valid_span": [0, 100], "start_inclusive": False, "end_inclusive": True}],
}
UNKNOWN = [("nosuch", "foo_test", {"a": 1}), ("qartod", "definitely_not_a_test", {"b": [1, 2]}), ("argo", "spike_test", {"suspect_threshold": 1}),
           ("nope.sub", "foo_test", {"a": 1}), ("qartod.v2", "spike_test", {"suspect_threshold": 1}), ("math", "log", {"x": 1}),
           ("os", "getcwd", None), ("numpy", "maximum", {"a": 1})]
_LONG = [[-93.123456, 22.5], [-93.123456, 32.25], [-90.5, 33.0], [-88.25, 32.75], [-86.0, 32.5], [-84.0625, 32.0], [-84.0625, 22.5], [-86.5, 21.75], [-90.0, 21.5], [-93.123456, 22.5]]
REGIONS = {
    # optional GeoJSON "id" members: equal ids, null ids, ids equal to list positions -- every feature still counts
    "features-ids": {"type": "FeatureCollection", "features": [
        {"type": "Feature", "id": "a", "geometry": {"type": "Point", "coordinates": [-72.5, 41.25]}},
        {"type": "Feature", "id": "a", "geometry": {"type": "Point", "coordinates": [-70.0, 40.0]}},
        {"type": "Feature", "id": None, "geometry": {"type": "Polygon", "coordinates": [[[0, 0], [0, 5], [5, 5], [0, 0]]]}},
        {"type": "Feature", "id": None, "geometry": {"type": "Point", "coordinates": [1.5, 2.5]}},
        {"type": "Feature", "geometry": {"type": "Point", "coordinates": [9.0, 9.0]}},
        {"type": "Feature", "id": 4, "geometry": {"type": "Point", "coordinates": [8.0, 8.0]}}]},
    # look-alike regions: same long first geometry, differing only in a later feature / a late vertex / the 4th decimal
    "long-a": {"type": "FeatureCollection", "features": [
        {"type": "Feature", "geometry": {"type": "Polygon", "coordinates": [_LONG]}},
        {"type": "Feature", "geometry": {"type": "Point", "coordinates": [-72.5, 41.25]}}]},
    "long-b": {"type": "FeatureCollection", "features": [
        {"type": "Feature", "geometry": {"type": "Polygon", "coordinates": [_LONG]}},
        {"type": "Feature", "geometry": {"type": "Point", "coordinates": [-60.0, 10.0]}}]},
    "long-c": {"type": "Feature", "geometry": {"type": "Polygon", "coordinates": [_LONG[:-3] + [[-90.0, 21.25], _LONG[0]]]}},
    "long-d": {"type": "Feature", "geometry": {"type": "Polygon", "coordinates": [[[p[0] + 0.0004, p[1]] for p in _LONG[:-1]] + [[_LONG[0][0] + 0.0004, _LONG[0][1]]]]}},
    "long-e": {"type": "Feature", "geometry": {"type": "Polygon", "coordinates": [_LONG]}},
    "fine-decimals": {"type": "Feature", "geometry": {"type": "Polygon", "coordinates": [[[-93.1234567891, 22.0000004], [-93.1234567891, 32.9999996],
                                                                                         [-84.000000123, 32.9999996], [-93.1234567891, 22.0000004]]]}},
    "fine-features": {"type": "FeatureCollection", "features": [
        {"type": "Feature", "geometry": {"type": "Point", "coordinates": [-72.123456789, 41.987654321]}}]},
    "geometry": {"type": "Feature", "geometry": {"type": "Polygon", "coordinates": [[[-93, 22], [-93, 32], [-84, 32], [-84, 22], [-93, 22]]]}},
    # GeoJSON's optional "bbox" member (RFC 7946 section 5) describes the extent; the region is still the geometries
    "geometry-bbox": {"type": "Feature", "bbox": [0.0, 0.0, 5.0, 5.0],
                      "geometry": {"type": "Polygon", "coordinates": [[[0, 0], [0, 5], [5, 5], [0, 0]]]}},
    "features-bbox": {"type": "FeatureCollection", "bbox": [-72.5, 0.0, 5.0, 41.25], "features": [
        {"type": "Feature", "bbox": [-72.5, 41.25, -72.5, 41.25], "geometry": {"type": "Point", "coordinates": [-72.5, 41.25]}},
        {"type": "Feature", "geometry": {"type": "Polygon", "coordinates": [[[0, 0], [0, 5], [5, 5], [0, 0]]]}}]},
    "features": {"type": "FeatureCollection", "features": [
        {"type": "Feature", "geometry": {"type": "Point", "coordinates": [-72.5, 41.25]}},
        {"type": "Feature", "geometry": {"type": "Polygon", "coordinates": [[[0, 0], [0, 5], [5, 5], [0, 0]]]}}]},
}


KEY_ORDER_RNG = None  # set by run(): shuffles dict key order while rendering


# --------------------------------------------------------------------------- generator


def gen_tree(rng):
    nctx = rng.choice([1, 1, 1, 2, 3, 5])
    ctxs = []
    used_windows = set()
    for _ in range(nctx):
        c = {"streams": OrderedDict()}
        if rng.random() < 0.5:
            a = P.T0 + rng.randrange(0, 50) * 86400
            w = rng.choice([(a, a + 86400 * 30), (a, None), (None, a)])
            if w not in used_windows:
                used_windows.add(w)
                c["window"] = w
        if rng.random() < 0.4:
            c["region"] = rng.choice(sorted(REGIONS))
        if ctxs and rng.random() < 0.35:
            # same window as an earlier context, different (possibly look-alike) region
            prev = rng.choice(ctxs)
            if "window" in prev:
                c["window"] = prev["window"]
            else:
                c.pop("window", None)
            others = [r for r in sorted(REGIONS) if r != prev.get("region")]
            c["region"] = rng.choice([r for r in others if r.startswith("long")] or others)
        for s in rng.sample(["temp", "salinity", "pressure", "v-1", "o2", "chl_a", "on", "no", "yes", "010", "qartod", "argo", "utils",
                             "1:30"], rng.choice([1, 1, 2, 3, 5])):
            keys = rng.sample(sorted(TESTS), rng.choice([1, 1, 2, 3, 5]))
            c["streams"][s] = [(m, t, rng.choice(TESTS[(m, t)])) for m, t in keys]
            if rng.random() < 0.3:
                u = rng.choice(UNKNOWN)
                if not any((u[0], u[1]) == (m, t) for m, t, _ in c["streams"][s]):
                    c["streams"][s].insert(rng.randrange(0, len(c["streams"][s]) + 1), u)
        ctxs.append(c)
    return ctxs


def intended(ctxs, default_stream=None):
    out = []
    for c in ctxs:
        for s, tests in c["streams"].items():
            for m, t, kw in tests:
                if (m, t) not in TESTS:
                    continue
                out.append((default_stream or s, m, t, canon(kw or {}), canon_window(c.get("window")),
                            region_wkb(REGIONS[c["region"]]) if c.get("region") else None))
    return sorted(map(repr, out))


def canon(v):
    if isinstance(v, dict):
        return tuple(sorted((str(k), canon(x)) for k, x in v.items()))
    if isinstance(v, (list, tuple)):
        return ("L", *[canon(x) for x in v])
    if isinstance(v, bool) or v is None:
        return v
    if isinstance(v, (int, float, np.integer, np.floating)):
        return float(v)
    if isinstance(v, (dt.datetime, dt.date, pd.Timestamp, np.datetime64)):
        return ("T", inst(v))
    if isinstance(v, str):
        # date-like strings compare as instants (YAML resolves unquoted ones to datetime)
        try:
            if len(v) >= 8 and v[:4].isdigit() and v[4] == "-":
                return ("T", inst(v))
        except Exception:  # noqa: BLE001
            pass
        return v
    return repr(v)


def inst(v):
    t = pd.Timestamp(v)
    if t.tzinfo is not None:
        t = t.tz_convert("UTC").tz_localize(None)
    return int(t.value // 10 ** 9)


def canon_window(w):
    if w is None:
        return (None, None)
    return tuple(None if x is None else int(x) for x in w)


def region_wkb(gj):
    from shapely.geometry import GeometryCollection, shape

    if "features" in gj:
        return GeometryCollection([shape(f["geometry"]) for f in gj["features"]]).wkb_hex
    return GeometryCollection([shape(gj["geometry"])]).wkb_hex


def observed(cfg):
    out = []
    for c in cfg.calls:
        w = c.context.window
        out.append((c.stream_id, c.module, c.method, canon(dict(c.kwargs)),
                    (None if w.starting is None else inst(w.starting), None if w.ending is None else inst(w.ending)),
                    None if c.context.region is None else c.context.region.wkb_hex))
    return sorted(map(repr, out))


# --------------------------------------------------------------------------- renderers


def plain(ctxs, time_as):
    """python structure in 'contexts' layout; windows rendered as datetime / iso string"""
    def tv(s):
        if s is None:
            return None
        d = dt.datetime(1970, 1, 1) + dt.timedelta(seconds=int(s))
        return d if time_as == "datetime" else d.strftime("%Y-%m-%dT%H:%M:%S")
    out = []
    for c in ctxs:
        d = OrderedDict()
        if "window" in c:
            w = OrderedDict()
            if c["window"][0] is not None:
                w["starting"] = tv(c["window"][0])
            if c["window"][1] is not None:
                w["ending"] = tv(c["window"][1])
            d["window"] = w
        if "region" in c:
            d["region"] = json.loads(json.dumps(REGIONS[c["region"]]))
        st = OrderedDict()
        for s, tests in c["streams"].items():
            for m, t, kw in tests:
                st.setdefault(s, OrderedDict()).setdefault(m, OrderedDict())[t] = None if kw is None else json.loads(json.dumps(kw))
        d["streams"] = st
        # key order is not part of the meaning: region/window/streams and starting/ending in any order
        if KEY_ORDER_RNG is not None and KEY_ORDER_RNG.random() < 0.5:
            ks = list(d)
            KEY_ORDER_RNG.shuffle(ks)
            d = OrderedDict((k, d[k]) for k in ks)
            if "window" in d and len(d["window"]) == 2 and KEY_ORDER_RNG.random() < 0.5:
                d["window"] = OrderedDict(reversed(list(d["window"].items())))
        out.append(d)
    return out


def layout(pl, which):
    if which == "contexts":
        return OrderedDict(contexts=pl)
    if which == "single-context":
        return pl[0]
    if which == "bare-streams":
        return pl[0]["streams"]
    if which == "bare-modules":
        return next(iter(pl[0]["streams"].values()))
    raise KeyError(which)


def hand_yaml(v, ind=0):
    """independent block-style YAML emitter (strings always double-quoted, null as empty value)"""
    sp = "  " * ind
    if isinstance(v, dict):
        if not v:
            return " {}\n"
        out = "\n" if ind else ""
        for k, x in v.items():
            key = json.dumps(str(k)) if (any(ch in str(k) for ch in ":#- ") or str(k)[:1].isdigit()) else str(k)
            if isinstance(x, dict) and x:
                out += f"{sp}{key}:{hand_yaml(x, ind + 1)}"
            elif x is None:
                out += f"{sp}{key}:\n"
            else:
                out += f"{sp}{key}: {flow(x)}\n"
        return out
    return f" {flow(v)}\n"


def flow(v):
    if isinstance(v, dict):
        return "{" + ", ".join(f"{json.dumps(str(k))}: {flow(x)}" for k, x in v.items()) + "}"
    if isinstance(v, (list, tuple)):
        return "[" + ", ".join(flow(x) for x in v) + "]"
    if v is None:
        return "null"
    if isinstance(v, bool):
        return "true" if v else "false"
    if isinstance(v, dt.datetime):
        return v.strftime("%Y-%m-%dT%H:%M:%S")  # unquoted: YAML resolves it to a timestamp
    if isinstance(v, str):
        return json.dumps(v)
    return repr(v)


def ruamel_yaml(obj):
    from ruamel.yaml import YAML

    y = YAML(typ="safe")
    y.default_flow_style = False
    buf = io.StringIO()
    y.dump(json_like(obj), buf)
    return buf.getvalue()


def json_like(o):
    if isinstance(o, dict):
        return {k: json_like(v) for k, v in o.items()}
    if isinstance(o, (list, tuple)):
        return [json_like(v) for v in o]
    return o


def per_variable_dataset(ctxs):
    import xarray as xr

    ds = xr.Dataset({"time": ("time", np.arange(3))})
    k = 0
    entries = [(s, m, t, kw) for s, tests in ctxs[0]["streams"].items() for m, t, kw in tests]
    if KEY_ORDER_RNG is not None and KEY_ORDER_RNG.random() < 0.6:
        # the QC variables of a file come in any order (by test, by creation time, ...), not grouped by target
        KEY_ORDER_RNG.shuffle(entries)
    for s, m, t, kw in entries:
        k += 1
        ds[f"qc_{k}"] = xr.DataArray(np.zeros(3), dims=("time",), attrs={
            "ioos_qc_module": m, "ioos_qc_test": t, "ioos_qc_target": s, "ioos_qc_config": json.dumps(kw or {})})
    ds["plain_var"] = xr.DataArray(np.ones(3), dims=("time",), attrs={"long_name": "no qc here"})
    return ds


def carriers(ctxs, lay, scratch, rng):
    """yield (carrier name, source object) for every carrier that can spell this config in this layout"""
    import xarray as xr

    has_window = any("window" in c for c in ctxs)
    pd_ = layout(plain(ctxs, "datetime"), lay)
    ps_ = layout(plain(ctxs, "iso"), lay)
    yield "dict", json_to_dict(pd_)
    yield "OrderedDict", pd_
    if has_window:
        # python carriers may hold a ready-made TimeWindow (config.tw) instead of a window mapping, and tuples for spans
        from ioos_qc.config import tw  # noqa: PLC0415

        def with_tw(o, top=True):
            if isinstance(o, dict):
                return type(o)((k, (tw(**{kk: vv for kk, vv in v.items()}) if k == "window" and isinstance(v, dict) else with_tw(v, False)))
                               for k, v in o.items())
            if isinstance(o, list):
                return [with_tw(v, False) for v in o] if (not o or isinstance(o[0], (dict, list))) else tuple(o)
            return o
        # window bounds as tz-aware datetimes in another zone: the same instants
        def aware(o):
            if isinstance(o, dict):
                return {k: aware(v) for k, v in o.items()}
            if isinstance(o, list):
                return [aware(v) for v in o]
            if isinstance(o, dt.datetime) and o.tzinfo is None:
                return o.replace(tzinfo=dt.timezone.utc).astimezone(dt.timezone(dt.timedelta(hours=5, minutes=30)))
            return o
        yield "dict(tz-aware-window)", aware(json_to_dict(pd_))
        yield "dict(tw-window,tuple-spans)", with_tw(json_to_dict(pd_))
        yield "OrderedDict(tw-window,tuple-spans)", with_tw(pd_)
    ytxt = ruamel_yaml(pd_)
    yield "yaml-text(ruamel)", ytxt
    yield "yaml-text(hand)", hand_yaml(json_to_dict(pd_))
    jtxt = json.dumps(ps_)
    yield "json-text", jtxt
    yield "stringio-yaml", io.StringIO(ytxt)
    yield "stringio-json", io.StringIO(jtxt)
    py = scratch.dir / "config.yaml"  # the same path is rewritten for every config: a reload must see the new text
    py.write_text(ytxt)
    yield "str-path-yaml", str(py)
    yield "Path-yaml", Path(py)
    pj = scratch.dir / "config.json"
    pj.write_text(jtxt)
    yield "str-path-json", str(pj)
    yield "Path-json", Path(pj)
    ds = xr.Dataset({"x": ("t", np.arange(2.0))}, attrs={"ioos_qc_config": jtxt})
    yield "xarray-global-json", ds
    yield "xarray-global-yaml", xr.Dataset({"x": ("t", np.arange(2.0))}, attrs={"ioos_qc_config": ytxt})
    pn = scratch.dir / "config.nc"
    ds.to_netcdf(pn, engine="scipy")
    yield "netcdf3-file-global", str(pn)
    no_null = all(kw is not None for c in ctxs for tests in c["streams"].values() for _, _, kw in tests)
    if lay == "bare-streams" and not has_window and no_null and not any("region" in c for c in ctxs):
        dv = per_variable_dataset(ctxs)
        yield "xarray-per-variable", dv
        pv = scratch.path(".nc")
        dv.to_netcdf(pv, engine="scipy")
        yield "netcdf3-file-per-variable", str(pv)
    _ = rng


def json_to_dict(o):
    if isinstance(o, dict):
        return {k: json_to_dict(v) for k, v in o.items()}
    if isinstance(o, list):
        return [json_to_dict(v) for v in o]
    return o


def run(ctx) -> None:
    from ioos_qc.config import Config

    global KEY_ORDER_RNG
    rng = ctx.rng
    KEY_ORDER_RNG = rng
    ctx.require("c07.configs_loaded", 1000)
    ctx.require("c07.carriers.xarray-per-variable", 5)
    scratch = P.Scratch()
    try:
        for it in range(ctx.pick(100, 1200)):
            ctxs = gen_tree(rng)
            lays = ["contexts"]
            if len(ctxs) == 1:
                lays.append("single-context")
                if "window" not in ctxs[0] and "region" not in ctxs[0]:
                    lays.append("bare-streams")
                    if len(ctxs[0]["streams"]) == 1:
                        lays.append("bare-modules")
            if it % 7 == 3:
                # history: a config that legally declares itself YAML 1.1 was loaded just before; the meaning of the
                # configs loaded afterwards (with ids such as on / no / 010 / 1:30) does not depend on that
                old = "%YAML 1.1\n---\ntemp:\n  qartod:\n    gross_range_test:\n      suspect_span: [1, 11]\n      fail_span: [0, 12]\n"
                for src in (old, io.StringIO(old)):
                    try:
                        got11 = observed(Config(src))
                    except Exception as e:  # noqa: BLE001
                        ctx.violation(f"C07:yaml-1.1-directive:raised:{type(e).__name__}@{P.client_where(e)}", {"kind": "config", "source": old})
                        continue
                    ctx.count("c07.yaml11_directive_loads")
                    if len(got11) != 1 or "'temp', 'qartod', 'gross_range_test'" not in got11[0]:
                        ctx.violation("C07:yaml-1.1-directive:call-set-differs", {"kind": "config", "source": old, "observed": got11})
            for lay in lays:
                dsk = rng.choice(["_stream", "_stream", "sensor_1", "v"]) if lay == "bare-modules" else None
                want = intended(ctxs, default_stream=dsk)
                all_null = all(kw is None for c in ctxs for tests in c["streams"].values() for _, _, kw in tests)
                has_null = any(kw is None for c in ctxs for tests in c["streams"].values() for _, _, kw in tests)
                has_unknown = any((m, t) not in TESTS for c in ctxs for tests in c["streams"].values() for m, t, _ in tests)
                for cname, src in carriers(ctxs, lay, scratch, rng):
                    wb = {"kind": "config", "carrier": cname, "layout": lay, "default_stream_key": dsk,
                          "tree": core.jsonable([{**c, "streams": {s: [list(x) for x in ts_] for s, ts_ in c["streams"].items()}} for c in ctxs]),
                          "source": src if isinstance(src, str) and len(src) < 1500 else type(src).__name__,
                          "all_params_null": all_null}
                    try:
                        cfg = Config(src) if dsk in (None, "_stream") else Config(src, default_stream_key=dsk)
                        got = observed(cfg)
                    except Exception as e:  # noqa: BLE001
                        ctx.violation(f"C07:{lay}:{cname}:raised:{type(e).__name__}@{P.client_where(e)}", {**wb, "error": repr(e)[:300]})
                        continue
                    ctx.count("c07.configs_loaded")
                    ctx.count(f"c07.carriers.{cname}")
                    rk = "+".join(sorted({c.get("region", "none") for c in ctxs}))
                    ctx.case(f"{cname}|{lay}|c{len(ctxs)}|w{int(any('window' in c for c in ctxs))}|r{rk}|null{int(has_null)}|unk{int(has_unknown)}",
                             trivial=cname == "dict" and lay == "contexts" and len(want) == 1,
                             sample={"carrier": cname, "layout": lay, "source": wb["source"], "calls": len(want)})
                    if got != want:
                        missing = [w for w in want if w not in got]
                        extra = [g for g in got if g not in want]
                        ctx.violation(f"C07:{lay}:{cname}:call-set-differs",
                                      {**wb, "missing_calls": missing[:6], "unexpected_calls": extra[:6],
                                       "n_expected": len(want), "n_observed": len(got)})
                        continue
                    # Call.config() round trip and context grouping
                    for c in cfg.calls:
                        cc = c.config()
                        if list(cc) != [c.module] or list(cc[c.module]) != [c.method] or canon(dict(cc[c.module][c.method])) != canon(dict(c.kwargs)):
                            ctx.violation("C07:Call.config-mismatch", {**wb, "call": repr(c)})
                    # (contexts are equal when window and region *geometries* are equal, whatever the region's spelling)
                    nctx_expected = len({(canon_window(c.get("window")), region_wkb(REGIONS[c["region"]]) if c.get("region") else None) for c in ctxs
                                         if any((m, t) in TESTS for ts_ in c["streams"].values() for m, t, _ in ts_)})
                    if len(cfg.contexts) != nctx_expected:
                        ctx.violation("C07:contexts-grouping", {**wb, "expected_contexts": nctx_expected,
                                                                "observed_contexts": len(cfg.contexts)})
    finally:
        scratch.close()
