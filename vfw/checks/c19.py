"""C19 — PandasStore writes one aligned, uniquely named column per result (DESIGN §4 C19)."""
from __future__ import annotations

import re

import numpy as np
import pandas as pd

from vfw import core, models, plumbing as P
from vfw.checks import c05

LEVEL = "exploration"
SHARDS = {"quick": 4, "thorough": 16}
ANCHORS = [("stores.py", "PandasStore.save"), ("stores.py", "column_from_collected_result"),
           ("stores.py", "PandasStore.compute_aggregate"), ("utils.py", "cf_safe_name")]
RULE = ("real PandasStream / NumpyStream runs over tables with unique row ids (1-3 streams whose ids contain '-', '.', "
        "space, '/', leading digits / underscores, non-ASCII letters; 1-3 windowed contexts leaving rows uncovered; "
        "probe + real tests) saved under all 4 write_data/write_axes combinations and include / exclude lists built "
        "from stream ids, test names and function objects (alone and together, empty lists, no-match entries), plus "
        "compute_aggregate.  The frame is judged against a model: row count and order, exact column set, CF-safe "
        "names, per-row values decoded to row id and context tag, axis/data columns equal to the source, roll-up = "
        "C04 oracle; cf_safe_name is also driven directly with generated names.  distinct = (front end, id kinds, "
        "write flags, filter kind, number of contexts, uncovered rows?); trivial = default save of one plain stream.")
ASSUMPTIONS = ["the roll-up column is judged only when no include/exclude filter is active (the statement does not say "
               "whether filtered-out results enter it)",
               "distinct stream ids whose CF-safe names coincide collide in one column: recorded finding D18"]
EXHAUSTIVE_ALL = False

NAME_RE = re.compile(r"^[A-Za-z_][A-Za-z0-9_]*$")
IDS = ["temp", "temp-1", "temp_1", "sea.water temp", "1stream", "salinité", "a/b", "_x", "v 1", "O2 (%)", "9", "x-", "T",
       "salt [psu]", "o2?", "chl*", "[ab]"]
# stream ids are literal strings: characters that mean something to fnmatch / regular expressions select nothing else
LOOKALIKES = [["salt [psu]", "salt p", "salt s"], ["temp*", "temp_raw", "temperature"], ["o2?", "o2x", "o2"], ["v.1", "vx1", "v11"],
              ["a|b", "a", "b"], ["(x)", "x", "((x))"], ["temp ", "temp", " temp"], ["Temp", "temp", "TEMP"], ["v\t1", "v1", "v 1"]]


def sanitize(s):
    return re.sub(r"[^A-Za-z0-9_]", "_", s)


def name_ok(col, sid, module, test):
    want = sanitize(f"{sid}.{module}.{test}" if sid else f"{module}.{test}")
    if not NAME_RE.match(col):
        return False
    # a short prefix is how a name is kept from starting with a digit; the statement does not fix it
    # (only a name that would otherwise start with a digit or an underscore gets one; "_temp_..." is not a spelling of "temp_...")
    return col == want or ((want[:1].isdigit() or want[:1] == "_") and col.endswith(want) and len(col) - len(want) <= 8)


def run(ctx) -> None:
    from ioos_qc import utils
    from ioos_qc.config import Config
    from ioos_qc.stores import PandasStore
    from ioos_qc.streams import NumpyStream, PandasStream
    import ioos_qc.axds as axds
    import ioos_qc.qartod as q

    rng = ctx.rng
    ctx.require("c19.saves", 200)
    ctx.require("c19.columns_judged", 500)
    ctx.require("c19.cf_safe_name_calls", 200)
    # ---- cf_safe_name directly
    alphabet = "abzAZ09_-. /%()éß中+*#:"
    for _ in range(ctx.pick(600, 6000)):
        name = "".join(rng.choice(alphabet) for _ in range(rng.randrange(1, 12)))
        try:
            out = utils.cf_safe_name(name)
        except Exception as e:  # noqa: BLE001
            ctx.violation(f"C19:cf_safe_name-raised:{type(e).__name__}", {"kind": "cf_safe_name", "name": name})
            continue
        ctx.count("c19.cf_safe_name_calls")
        ctx.case(f"cfname|first={'digit' if name[0].isdigit() else 'under' if name[0] == '_' else 'alpha' if name[0].isascii() and name[0].isalpha() else 'other'}|"
                 f"illegal={any(not (c.isascii() and (c.isalnum() or c == '_')) for c in name)}")
        if not NAME_RE.match(out) or not out.endswith(sanitize(name)):
            ctx.violation("C19:cf_safe_name-not-safe", {"kind": "cf_safe_name", "name": name, "observed": out})
    P.install_probes()
    try:
        for it in range(ctx.pick(320, 2500)):
            n = rng.choice([1, 2, 3, 5, 8, 8, 40])
            nstreams = rng.choice([1, 2, 2, 3, 5])
            sids = rng.sample(IDS, nstreams)
            wide = None
            if it % 25 == 7:
                # wide store: the number of collected results sits around 32 / 64
                wide = [31, 32, 33, 34, 63, 64, 65, 66, 97][(it // 25) % 9]  # every width in every run
                sids = [f"s{k:02d}" for k in range((wide + 2) // 3)]
                nstreams = len(sids)
            axis_named = it % 25 == 13
            if axis_named:
                sids = [*sids[:2], rng.choice(["z", "lat", "lon"])]  # a QC'd stream may be named like an axis column
                nstreams = len(sids)
            lookalike = it % 25 == 19
            if lookalike:
                sids = list(rng.choice(LOOKALIKES))
                nstreams = len(sids)
            tb = P.Table(n, streams=sids, with_z=rng.random() < 0.7, with_pos=rng.random() < 0.7,
                         secs=None if rng.random() < 0.5 else c05.gen_irregular(rng, n))
            lay = P.window_layouts(tb)
            nctx = rng.choice([1, 1, 2, 3, 5])
            # disjoint windows so that each row gets one flag per test
            cuts = sorted(rng.sample(range(n + 1), min(n + 1, nctx + 1))) if nctx > 1 else None
            wins = [(None, None)] if nctx == 1 and rng.random() < 0.5 else None
            if wins is None:
                if cuts is None or len(cuts) < 2:
                    wins = [rng.choice(lay)]
                else:
                    bound = lambda k: tb.secs[k] if k < n else tb.secs[-1] + 1  # noqa: E731
                    wins = [(bound(cuts[k]), bound(cuts[k + 1])) for k in range(len(cuts) - 1)]
            contexts, exp = [], {}
            for ci, w in enumerate(wins):
                sd = {}
                mask = tb.rows_in(w)
                for s in sids:
                    tests = [("qartod", "vf_probe_test", {"tag": ci + 1})]
                    if wide is not None:
                        # every result but the very last one is all GOOD/UNKNOWN, the last collected result (a probe)
                        # carries SUSPECT / FAIL flags: the roll-up has to see result number `wide`
                        k_ = sids.index(s)
                        want_n = 3 if (k_ + 1) * 3 <= wide else wide - k_ * 3
                        calm = [("qartod", "gross_range_test", {"fail_span": [0, 99999], "suspect_span": [1, 99998]}),
                                ("axds", "valid_range_test", {"valid_span": [0, 99999]}),
                                ("qartod", "spike_test", {"suspect_threshold": 1e9, "fail_threshold": 1e9})]
                        tests = calm[:want_n]
                        if s == sids[-1]:
                            tests = [*calm[: want_n - 1], ("qartod", "vf_probe_test", {"tag": ci + 1})]
                    else:
                        if rng.random() < 0.6:
                            tests.append(("qartod", "gross_range_test", {"fail_span": [1001, 3006], "suspect_span": [1002, 3004]}))
                        if rng.random() < 0.3:
                            tests.append(("axds", "valid_range_test", {"valid_span": [1001, 3004]}))
                    sd[s] = tests
                    for m, t, kw in tests:
                        fl = c05.direct(m, t, kw, tb, mask, s)
                        e = exp.setdefault((s, m, t), [None] * n)
                        for pos, f in zip(np.flatnonzero(mask), fl):
                            e[pos] = f
                contexts.append({"window": w, "streams": sd})
            fe = rng.choice(["pandas", "numpy-dict"]) if not axis_named else "numpy-dict"
            if wide is not None:
                wins, contexts_w = wins[:1], None
            cfg = Config(P.build_config(contexts))
            if fe == "pandas":
                st = PandasStream(P.to_frame(tb))
            else:
                kw = {"time": tb.time}
                if tb.with_z:
                    kw["z"] = tb.z
                if tb.with_pos:
                    kw["lat"], kw["lon"] = tb.lat, tb.lon
                st = NumpyStream(inp=dict(tb.data), **kw)
            write_data, write_axes = rng.random() < 0.5, rng.random() < 0.5
            funcs = {"gross_range_test": q.gross_range_test, "vf_probe_test": q.vf_probe_test,
                     "valid_range_test": axds.valid_range_test, "spike_test": q.spike_test}
            pool = [*sids, "vf_probe_test", "gross_range_test", "valid_range_test", q.gross_range_test,
                    q.vf_probe_test, "nomatch", q.spike_test]
            fkind = rng.choice(["none", "none", "include", "exclude", "both", "empty-include", "empty-exclude"])
            if wide is not None:
                fkind = "none"
            include = exclude = None
            if fkind in ("include", "both"):
                include = rng.sample(pool, rng.randrange(1, 4))
            if fkind in ("exclude", "both"):
                exclude = rng.sample(pool, rng.randrange(1, 4))
            if include is not None and rng.random() < 0.3:
                include = tuple(include)
            if exclude is not None and rng.random() < 0.3:
                exclude = tuple(exclude)
            if lookalike:
                fkind = rng.choice(["include", "exclude"])
                include, exclude = ([sids[0]], None) if fkind == "include" else (None, [sids[0]])
                ctx.count("c19.lookalike_id_saves")
            if fkind == "empty-include":
                include = []
            if fkind == "empty-exclude":
                exclude = []
            wb = {"kind": "store-save", "frontend": fe, "table": tb.describe(), "contexts": core.jsonable(contexts),
                  "write_data": write_data, "write_axes": write_axes,
                  "include": None if include is None else [getattr(x, "__name__", x) + ("()" if callable(x) else "") for x in include],
                  "exclude": None if exclude is None else [getattr(x, "__name__", x) + ("()" if callable(x) else "") for x in exclude]}
            do_agg = fkind == "none" and (rng.random() < 0.6 or wide is not None)
            if wide is not None:
                ctx.count("c19.wide_store_saves")
            try:
                if rng.random() < 0.4 and not axis_named:
                    # the axis-to-column mapping spelled out by the caller, keys in any order (same names as the default)
                    items = [("t", "time"), ("z", "z"), ("y", "lat"), ("x", "lon")]
                    rng.shuffle(items)
                    store = PandasStore(st.run(cfg), axes=dict(items))
                    ctx.count("c19.saves_with_explicit_axes_mapping")
                else:
                    store = PandasStore(st.run(cfg))
                if do_agg:
                    if rng.random() < 0.5:
                        # history: the same store was already saved with the same options before the roll-up was added
                        store.save(write_data=write_data, write_axes=write_axes, include=include, exclude=exclude)
                        ctx.count("c19.save_aggregate_save_histories")
                    store.compute_aggregate()
                df = store.save(write_data=write_data, write_axes=write_axes, include=include, exclude=exclude)
            except Exception as e:  # noqa: BLE001
                ctx.violation(f"C19:save-raised:{fkind}:{type(e).__name__}@{P.client_where(e)}", {**wb, "error": repr(e)[:300]})
                continue
            ctx.count("c19.saves")
            uncovered = any(None in e for e in exp.values())
            idk = "+".join(sorted({"plain" if NAME_RE.match(s) and not s.startswith("_") else "hostile" for s in sids}))
            ctx.case(f"{fe}|{idk}|d{int(write_data)}a{int(write_axes)}|{fkind}|ctx{len(wins)}|unc{int(uncovered)}|agg{int(do_agg)}",
                     trivial=fkind == "none" and idk == "plain" and not uncovered and not do_agg,
                     sample=wb)

            def passes(k):
                s, m, t = k
                inc = include is None or funcs[t] in include or s in include or t in include
                exc = exclude is not None and (funcs[t] in exclude or s in exclude or t in exclude)
                return inc and not exc
            if len(df) != n and len(df.columns):
                ctx.violation("C19:row-count", {**wb, "rows": len(df)})
                continue
            cols = list(df.columns)
            expected_cols = {}
            for k in exp:
                if passes(k):
                    expected_cols.setdefault(sanitize(".".join(k)), []).append(k)
            matched = set()
            for k, e in exp.items():
                if not passes(k):
                    continue
                cand = [c for c in cols if name_ok(c, *k)]
                ctx.count("c19.columns_judged")
                w2 = {**wb, "result": list(k), "columns": cols,
                      "colliding_results": [list(x) for x in expected_cols[sanitize(".".join(k))] if x != k]}
                if len(cand) != 1:
                    ctx.violation("C19:result-column-missing" if not cand else "C19:result-column-ambiguous", w2)
                    continue
                matched.add(cand[0])
                col = df[cand[0]]
                got = [None if pd.isna(v) else int(v) for v in col.tolist()]
                if got != e:
                    ctx.violation("C19:result-column-values", {**w2, "column": cand[0], "expected": e, "observed": got})
            axis_names = {"time": tb.with_time, "z": tb.with_z, "lat": tb.with_pos, "lon": tb.with_pos}
            any_cover = any(any(v is not None for v in e) for e in exp.values())
            def col_equals(name, src, is_time=False):
                vals = df[name].to_numpy()
                for r in range(n):
                    v = vals[r]
                    if pd.isna(v):
                        continue
                    if not ((np.datetime64(v, "ns") == src[r]) if is_time else float(v) == float(src[r])):
                        return False
                return True

            for a, have in axis_names.items():
                if a in sids:
                    # a stream named like an axis column: the one column of that name is the axis (when axes are
                    # written and the source has it) or the stream's data (when data are written)
                    axis_exp = write_axes and have and any_cover
                    data_exp = write_data and any(passes(k) for k in exp if k[0] == a)
                    if a in cols and write_axes and df[a].isna().all():
                        matched.add(a)  # written entirely empty: carries no information (see the plain axis case below)
                        continue
                    if a in cols:
                        matched.add(a)
                        src_axis = {"time": tb.time, "z": tb.z, "lat": tb.lat, "lon": tb.lon}[a]
                        ok_axis = (write_axes and have) and col_equals(a, src_axis, a == "time")
                        ok_data = data_exp and col_equals(a, tb.data[a])
                        if not (ok_axis or ok_data):
                            ctx.violation(f"C19:axis-named-stream-column:{a}", {**wb, "columns": cols, "axis_expected": axis_exp,
                                                                                "data_expected": data_exp})
                    elif axis_exp or data_exp:
                        ctx.violation(f"C19:axis-named-stream-column-missing:{a}", {**wb, "columns": cols, "axis_expected": axis_exp,
                                                                                    "data_expected": data_exp})
                    continue
                present = a in cols
                want = write_axes and have and any_cover
                if present and not have and write_axes and df[a].isna().all():
                    matched.add(a)  # an axis the source lacks, written entirely empty: carries no information
                elif present and not (write_axes and have):
                    ctx.violation(f"C19:axis-column-unexpected:{a}", {**wb, "columns": cols})
                elif want and not present:
                    ctx.violation(f"C19:axis-column-missing:{a}", {**wb, "columns": cols})
                elif present:
                    matched.add(a)
                    src = {"time": tb.time, "z": tb.z, "lat": tb.lat, "lon": tb.lon}[a]
                    vals = df[a].to_numpy()
                    covered_by_all = [all(e[r] is not None for e in exp.values()) for r in range(n)]
                    for r in range(n):
                        v = vals[r]
                        if pd.isna(v):
                            if covered_by_all[r]:
                                ctx.violation(f"C19:axis-column-empty-on-covered-row:{a}", {**wb, "row": r})
                                break
                            continue
                        same = (np.datetime64(v, "ns") == src[r]) if a == "time" else float(v) == float(src[r])
                        if not same:
                            ctx.violation(f"C19:axis-column-value:{a}", {**wb, "row": r, "observed": core.jsonable(v),
                                                                         "source": core.jsonable(src[r])})
                            break
            for s in sids:
                if s in axis_names:
                    continue  # handled above
                has_pass = any(passes(k) for k in exp if k[0] == s)
                if s in cols:
                    matched.add(s)
                    if not write_data:
                        ctx.violation("C19:data-column-unexpected", {**wb, "stream": s, "columns": cols})
                    else:
                        vals = df[s].to_numpy()
                        for r in range(n):
                            if not pd.isna(vals[r]) and float(vals[r]) != float(tb.data[s][r]):
                                ctx.violation("C19:data-column-value", {**wb, "stream": s, "row": r})
                                break
                elif write_data and has_pass:
                    ctx.violation("C19:data-column-missing", {**wb, "stream": s, "columns": cols})
            if do_agg:
                roll = [c for c in cols if c not in matched and c.endswith("rollup")]
                if len(roll) != 1 or not NAME_RE.match(roll[0]):
                    ctx.violation("C19:rollup-column-missing", {**wb, "columns": cols})
                else:
                    matched.add(roll[0])
                    # aggregate of the collected results (one per distinct column key)
                    vectors = list(exp.values())
                    want = models.compare(vectors)
                    got = [None if pd.isna(v) else int(v) for v in df[roll[0]].tolist()]
                    ctx.count("c19.rollups_judged")
                    if got != want:
                        ctx.violation("C19:rollup-values", {**wb, "expected": want, "observed": got})
            extra = [c for c in cols if c not in matched]
            if extra:
                ctx.violation("C19:unexpected-columns", {**wb, "extra": extra, "columns": cols})
    finally:
        P.remove_probes()
