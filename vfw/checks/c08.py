"""C08 — climatology: last matching member decides, unmatched points UNKNOWN (DESIGN §4 C08)."""
from __future__ import annotations

import datetime as dt
import itertools

import numpy as np
import pandas as pd

from vfw import client, gen, models

LEVEL = "exploration"
SHARDS = {"quick": 4, "thorough": 16}
ANCHORS = [("qartod.py", "ClimatologyConfig.check"), ("qartod.py", "ClimatologyConfig.add"),
           ("qartod.py", "climatology_test"), ("utils.py", "mapdates")]
RULE = ("W1: one observation (time T, value V, depth Z present or missing) against one member whose tspan bounds range "
        "over {T-1s, T, T+1s} (absolute) or {p-1, p, p+1} (period value p; month, week, dayofyear, quarter, "
        "dayofweek, year), vspan over {V-1/2, V, V+1/2}, fspan absent/wide/degenerate/excluding, zspan absent or over "
        "{Z-1/2, Z, Z+1/2}, spans in either order -- every boundary combination; W2: seeded series of 0..8 points at "
        "calendar edges (ISO-week year boundaries, leap days, quarter/month ends, 2019-12..2022-03) with present / "
        "partly missing / all missing depths against 0..3 overlapping members of every kind given as dict lists or "
        "ClimatologyConfig objects, tspans as ISO strings / Timestamps / datetimes / datetime64.  distinct = (member "
        "kinds, has zspan/fspan, depth class, missing class, length class, set of flags); trivial = all GOOD.")
ASSUMPTIONS = ["times are whole seconds", "period kinds limited to month, week/weekofyear, dayofyear, quarter, dayofweek, year"]
EXHAUSTIVE_ALL = False

PERIODS = ["month", "week", "weekofyear", "dayofyear", "quarter", "dayofweek", "year"]
EDGE_DAYS = ["2019-12-29", "2019-12-30", "2019-12-31", "2020-01-01", "2020-01-05", "2020-01-06", "2020-02-28",
             "2020-02-29", "2020-03-01", "2020-03-31", "2020-04-01", "2020-06-30", "2020-07-01", "2020-09-30",
             "2020-10-01", "2020-12-27", "2020-12-28", "2020-12-31", "2021-01-01", "2021-01-03", "2021-01-04",
             "2021-02-28", "2021-03-01", "2021-12-31", "2022-01-01", "2022-01-02", "2022-01-03", "2022-03-15"]
CARRIERS = ["dt64ns", "dt64s", "epoch-int", "epoch-list", "dtindex", "pydatetime", "series"]


def epoch(day, secs=0):
    d = dt.datetime.strptime(day, "%Y-%m-%d")
    return int((d - dt.datetime(1970, 1, 1)).total_seconds()) + secs


def tspan_carrier(rng, lo, hi):
    """absolute tspan in epoch seconds -> something pd.Timestamp() accepts"""
    def one(s, how):
        d = dt.datetime(1970, 1, 1) + dt.timedelta(seconds=s)
        if how == "iso":
            return d.strftime("%Y-%m-%dT%H:%M:%S")
        if how == "us":  # month/day/year: the text order of two such strings is not their date order
            return d.strftime("%m/%d/%Y %H:%M:%S")
        if how == "ts":
            return pd.Timestamp(d)
        if how == "dt":
            return d
        return np.datetime64(d, "s")
    how = rng.choice(["iso", "ts", "dt", "dt64", "us"])
    sp = [one(lo, how), one(hi, how)]
    return tuple(sp) if rng.random() < 0.3 else sp


def to_call(rng, members, as_object=False):
    """logical members (epoch-second tspans) -> config argument for climatology_test"""
    import ioos_qc.qartod as q

    out = []
    for m in members:
        d = {}
        if m["period"] is None:
            d["tspan"] = tspan_carrier(rng, *m["tspan"])
        else:
            d["tspan"] = list(m["tspan"]) if rng.random() < 0.7 else tuple(m["tspan"])
            d["period"] = m["period"]
        d["vspan"] = list(m["vspan"]) if rng.random() < 0.7 else tuple(m["vspan"])
        if m["fspan"] is not None:
            d["fspan"] = list(m["fspan"])
        if m["zspan"] is not None:
            d["zspan"] = list(m["zspan"])
        out.append(d)
    if as_object:
        c = q.ClimatologyConfig()
        for d in out:
            c.add(**d)
        return c
    return out


def mkind(members):
    return "+".join(sorted({(m["period"] or "abs") + ("z" if m["zspan"] else "") + ("f" if m["fspan"] else "")
                            for m in members})) or "nomembers"


def clim_case(ctx, members, x, t, z, tag, carrier="dt64ns", as_object=False) -> None:
    rng = ctx.rng
    cfg = to_call(rng, members, as_object)
    kw = {"config": cfg, "inp": gen.carried(rng, x, poisons=(0.0, 3.0, 100.0, 10.0)), "tinp": gen.times(t, carrier),
          "zinp": gen.carried(rng, z, poisons=(0.0, 5.0, 10.0, 50.0)) if z is not None else gen.arr([None] * len(x))}
    o, _ = client.expect(ctx, "C08", "qartod.climatology_test", kw,
                         lambda: models.climatology(members, x, t, z),
                         logical={"members": members, "x": x, "t": t, "z": z, "time_carrier": carrier,
                                  "config_object": as_object}, hist="climatology")
    ctx.count("climatology.calls")
    fs = gen.flagset(o)
    zc = "noz" if z is None else gen.mclass(z) if z else "none"
    ctx.case(f"{tag}|{mkind(members)}|k{len(members)}|z{zc}|m{gen.mclass(x) if x else 'none'}|n{gen.nclass(len(x))}|{fs}",
             trivial=fs in ("1", ""),
             sample={"members": members, "x": x, "t": t, "z": z, "observed": o.brief()})


def run(ctx) -> None:
    rng = ctx.rng
    ctx.require("climatology.calls", 1000)
    ctx.require("climatology.w1_boundary_cases", 500)
    ctx.require("climatology.config_object_reuse_calls", 50)
    # ---- W1: one point, one member, all boundary combinations
    T = epoch("2020-12-31", 86399)  # ISO week 53, day of year 366, quarter 4, Thursday
    V, Z = 10.0, 5.0
    offs = [(-1, -1), (-1, 0), (-1, 1), (0, 0), (0, 1), (1, 1), (1, -1)]
    i = 0
    kinds = [None, "month", "week", "dayofyear", "quarter", "dayofweek", "year"]
    for kind in kinds:
        if kind is None:
            tsp = [(T + a, T + b) for a, b in offs]
        else:
            p = models._period_value(T, kind)
            tsp = [(p + a, p + b) for a, b in offs]
        vsp = [(V + a / 2, V + b / 2) for a, b in offs]
        fsp = [None, (V - 1, V + 1), (V, V), (V + 0.5, V + 1), (V - 1, V - 0.5)]
        zsp = [None, *((Z + a / 2, Z + b / 2) for a, b in offs)]
        for ts, vs, fs_, zs in itertools.product(tsp, vsp, fsp, zsp):
            i += 1
            if not ctx.mine(i):
                continue
            m = {"tspan": list(ts), "vspan": list(vs), "fspan": None if fs_ is None else list(fs_),
                 "zspan": None if zs is None else list(zs), "period": kind}
            zval = [Z] if i % 5 else [None]
            clim_case(ctx, [m], [V], [T], zval, "w1")
            ctx.count("climatology.w1_boundary_cases")
    ctx.exhaustive.append("climatology_test: 1 point x 1 member, 7 tspan x 7 vspan x 5 fspan x 8 zspan boundary "
                          "combinations x 7 member kinds")
    # ---- W2: seeded series and member lists
    for _ in range(ctx.pick(2500, 12000)):
        n = rng.choice([0, 1, 2, 3, 5, 8, 8, 40, ctx.pick(120, 400)])
        t = sorted({epoch(rng.choice(EDGE_DAYS), rng.randrange(0, 86400) if n > 8 else rng.choice([0, 1, 43200, 86399])) for _ in range(n)})
        if t and rng.random() < 0.4:
            # repeated instants (a depth cast): sorted, or in arbitrary order
            t = sorted(t + [rng.choice(t) for _ in range(rng.randrange(1, 4))])
            if rng.random() < 0.3:
                rng.shuffle(t)
        n = len(t)
        x = [None if rng.random() < 0.15 else gen.dyadic(rng, 0, 6, 2) for _ in range(n)]
        zmode = rng.choice(["present", "some", "all-missing"])
        z = [rng.choice([0.0, 5.0, 10.0, 10.5, 50.0]) for _ in range(n)]
        if zmode == "some":
            z = [None if rng.random() < 0.35 else v for v in z]
        elif zmode == "all-missing":
            z = [None] * n
        members = []
        for _k in range(rng.choice([0, 1, 1, 2, 2, 3])):
            kind = rng.choice([None, None, *PERIODS])
            if kind is None:
                if t and rng.random() < 0.7:
                    a, b = rng.choice(t) + rng.choice([-1, 0, 1]), rng.choice(t) + rng.choice([-1, 0, 1])
                else:
                    a, b = epoch(rng.choice(EDGE_DAYS)), epoch(rng.choice(EDGE_DAYS), 86399)
            else:
                pv = [models._period_value(s, kind) for s in t] or [1]
                a, b = rng.choice(pv) + rng.choice([-1, 0, 0, 1]), rng.choice(pv) + rng.choice([-1, 0, 0, 1])
            lo, hi = sorted((gen.dyadic(rng, 0, 6, 2), gen.dyadic(rng, 0, 6, 2)))
            fspan = None
            if rng.random() < 0.5:
                fspan = [lo - rng.choice([0, 0.5, 2]), hi + rng.choice([0, 0.5, 2])]
                if rng.random() < 0.15:
                    fspan = fspan[::-1]
            zspan = None
            if rng.random() < 0.45:
                zspan = sorted((rng.choice([0.0, 5.0, 10.0, 10.5, 50.0]), rng.choice([0.0, 5.0, 10.0, 10.5, 50.0])))
                if rng.random() < 0.15:
                    zspan = zspan[::-1]
            vspan = [lo, hi] if rng.random() < 0.85 else [hi, lo]
            tspan = [a, b] if rng.random() < 0.85 else [b, a]
            members.append({"tspan": tspan, "vspan": vspan, "fspan": fspan, "zspan": zspan, "period": kind})
        clim_case(ctx, members, x, t, z, "w2", carrier=rng.choice(CARRIERS), as_object=rng.random() < 0.3)
        # history: ONE ClimatologyConfig object used for several series of the same length (a config object is
        # meant to be built once and applied to many series)
        if members and n and rng.random() < 0.35:
            import ioos_qc.qartod as q

            obj = to_call(rng, members, as_object=True)
            for _rep in range(3):
                t2 = sorted({epoch(rng.choice(EDGE_DAYS), rng.choice([0, 1, 43200, 86399])) for _ in range(n * 3)})[:n]
                if len(t2) != n:
                    continue
                x2 = [None if rng.random() < 0.1 else gen.dyadic(rng, 0, 6, 2) for _ in range(n)]
                kw = {"config": obj, "inp": gen.arr(x2), "tinp": gen.times(t2), "zinp": gen.arr(z)}
                client.expect(ctx, "C08", "qartod.climatology_test", kw, lambda: models.climatology(members, x2, t2, z),
                              logical={"members": members, "x": x2, "t": t2, "z": z, "note": "config object reused from an earlier call"},
                              hist="climatology")
                ctx.count("climatology.calls")
                ctx.count("climatology.config_object_reuse_calls")
                ctx.case(f"reuse|{mkind(members)}|n{gen.nclass(n)}")
                if n >= 3:
                    # ... and right afterwards on another axis of the same length with the same first and last instant but
                    # other days in between (what a per-axis memo keyed on size and end points would confuse)
                    inner = sorted({epoch(rng.choice(EDGE_DAYS), rng.choice([0, 1, 43200, 86399])) for _ in range(n * 4)}
                                   - {t2[0], t2[-1]})
                    inner = [v for v in inner if t2[0] < v < t2[-1]]
                    if len(inner) >= n - 2:
                        t3 = [t2[0], *sorted(rng.sample(inner, n - 2)), t2[-1]]
                        if t3 != t2:
                            kw3 = {"config": obj, "inp": gen.arr(x2), "tinp": gen.times(t3), "zinp": gen.arr(z)}
                            client.expect(ctx, "C08", "qartod.climatology_test", kw3, lambda: models.climatology(members, x2, t3, z),
                                          logical={"members": members, "x": x2, "t": t3, "z": z,
                                                   "note": "config object just used on an axis with the same length and end points", "previous_t": t2},
                                          hist="climatology")
                            ctx.count("climatology.calls")
                            ctx.count("climatology.same_ends_axis_after_reuse_calls")
                            ctx.case(f"reuse-same-ends|{mkind(members)}|n{gen.nclass(n)}")
            # history: a config object is used, THEN extended with further members, then used again: the members it holds
            # at the time of the call decide (equal to a config built in one go)
            if len(members) >= 2:
                k_ = rng.randrange(1, len(members))
                grown = to_call(rng, members[:k_], as_object=True)
                kw0 = {"config": grown, "inp": gen.arr(x), "tinp": gen.times(t), "zinp": gen.arr(z) if z is not None else gen.arr([None] * len(x))}
                client.expect(ctx, "C08", "qartod.climatology_test", kw0, lambda: models.climatology(members[:k_], x, t, z),
                              logical={"members": members[:k_], "x": x, "t": t, "z": z, "note": "first use of a config that is extended later"},
                              hist="climatology")
                for d_ in to_call(rng, members[k_:], as_object=False):
                    grown.add(**d_)
                client.expect(ctx, "C08", "qartod.climatology_test", kw0, lambda: models.climatology(members, x, t, z),
                              logical={"members": members, "x": x, "t": t, "z": z,
                                       "note": f"config object used with its first {k_} member(s), then extended with add(), then used again"},
                              hist="climatology")
                ctx.count("climatology.calls", 2)
                ctx.count("climatology.use_add_use_histories")
                ctx.case(f"use-add-use|{mkind(members)}|k{len(members)}")
            _ = q
    # ---- instants with a fractional second (as epoch numbers and as datetime64 of a fine unit): a member's span is closed
    #      at whole-second bounds, so an observation a fraction of a second outside it is outside it
    for _ in range(ctx.pick(150, 800)):
        a = epoch(rng.choice(EDGE_DAYS), rng.choice([0, 3600, 86399]))
        b = a + rng.choice([2, 60, 86400])
        tq = sorted({a - 0.25, a - 0.75, float(a), a + 0.5, b - 0.25, float(b), b + 0.25, b + 0.75, b + 1.0})
        xq = [rng.choice([0.5, 2.0, 9.0]) for _ in tq]
        members = [{"tspan": [a, b], "vspan": [0, 1], "fspan": [-1, 5] if rng.random() < 0.5 else None, "zspan": None, "period": None}]
        if rng.random() < 0.5:
            members.insert(0, {"tspan": [a - 86400, b + 86400], "vspan": [0, 10], "fspan": None, "zspan": None, "period": None})
        carq = rng.choice(["epoch-float", "epoch-list", "dt64ms", "dt64ns", "pydatetime"])
        kw = {"config": to_call(rng, members), "inp": gen.arr(xq), "tinp": gen.ftimes(tq, carq), "zinp": gen.arr([None] * len(tq))}
        client.expect(ctx, "C08", "qartod.climatology_test", kw, lambda: models.climatology(members, xq, tq, None),
                      logical={"members": members, "x": xq, "t": tq, "time_carrier": carq, "note": "sub-second instants around the span ends"},
                      hist="climatology")
        ctx.count("climatology.calls")
        ctx.count("climatology.subsecond_instant_calls")
        ctx.case(f"subsecond|{carq}|k{len(members)}")

    # ---- spans with decimal (non-dyadic) bounds and one-sided spans: a value ON a bound is inside, the next float beyond it is
    #      outside, an infinite bound never excludes anything
    inf = float("inf")
    for _ in range(ctx.pick(150, 800)):
        vs = rng.choice([(2.2, 35.7), (0.1, 0.3), (-2.4, -2.1), (10.3, inf), (-inf, 30.1), (1e-3, 1013.25), (0.7, 1.1)])
        fs_ = rng.choice([None, (vs[0] - rng.choice([0.3, 1.1]) if vs[0] != -inf else -inf, vs[1] + rng.choice([0.2, 2.3]) if vs[1] != inf else inf)])
        bounds = [b for b in (*vs, *(fs_ or ())) if abs(b) != inf]
        xv = []
        for b in bounds:
            xv += [b, float(np.nextafter(b, -inf)), float(np.nextafter(b, inf))]
        xv += [1e300, -1e300, 0.0]
        rng.shuffle(xv)
        a = epoch(rng.choice(EDGE_DAYS))
        tq = [a + 60 * k for k in range(len(xv))]
        members = [{"tspan": [a - 10, a + 86400], "vspan": list(vs), "fspan": None if fs_ is None else list(fs_), "zspan": None, "period": None}]
        clim_case(ctx, members, xv, tq, None, "decimal-bounds", carrier=rng.choice(CARRIERS))
        ctx.count("climatology.decimal_bound_calls")
