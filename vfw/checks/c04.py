"""C04 — aggregation = worst evaluated flag (DESIGN §4 C04)."""
from __future__ import annotations

import itertools

import numpy as np

from vfw import client, core, models

LEVEL = "exploration"
SHARDS = {"quick": 4, "thorough": 16}
ANCHORS = [("qartod.py", "qartod_compare"), ("qartod.py", "aggregate"), ("stores.py", "PandasStore.compute_aggregate")]
RULE = ("full table: k in {1,2,3} vectors of length 1 and k=2 of length 2 over the symbols {1,2,3,4,9, non-flags 0 and "
        "7, masked}, every masked entry repeated with each poison value {1,2,3,4,9,0,255} underneath (14^k cases per "
        "index); seeded k<=6 vectors of length <=50 in uint8/int64/float64, plain and masked; pointwise model plus "
        "laws on the recorded outputs (permutation, duplication, grouping compare([compare(A),compare(B)]) = "
        "compare(A+B), idempotence, never masked, alphabet, never better than the worst evaluated input); "
        "qartod.aggregate over CollectedResults of real windowed stream runs and PandasStore.compute_aggregate.  "
        "distinct = (k, length class, dtype, set of symbols present, output set); trivial = single vector of flags.")
ASSUMPTIONS = ["vectors are 1-D numpy arrays (plain or masked) of equal length, as the function requires"]
EXHAUSTIVE_ALL = False

SYMS = [1, 2, 3, 4, 9, 0, 7]
POISON = [1, 2, 3, 4, 9, 0, 255]
OPTIONS = [(s, False) for s in SYMS] + [(p, True) for p in POISON]  # (data, masked)
SEV = {9: 0, 2: 1, 1: 2, 3: 3, 4: 4}


def build(vec, dtype, force_masked=False):
    data = np.array([d for d, _ in vec], dtype=dtype)
    mask = np.array([m for _, m in vec], dtype=bool)
    if mask.any() or force_masked:
        return np.ma.MaskedArray(data, mask=mask)
    return data


def logical(vec):
    return [None if m else int(d) for d, m in vec]


def call(ctx, vectors, dtype, tag, force_masked=False):
    arrs = [build(v, dtype, force_masked) for v in vectors]
    logi = [logical(v) for v in vectors]
    expect = models.compare(logi)
    o, _ = client.expect(ctx, "C04", "qartod.qartod_compare", {"vectors": arrs},
                         lambda: [frozenset([e]) for e in expect],
                         logical={"vectors": logi, "poison_under_mask": [[int(d) for d, m in v if m] for v in vectors],
                                  "dtype": str(np.dtype(dtype))}, hist="qartod_compare")
    ctx.count("compare.calls")
    syms = set()
    for v in logi:
        syms.update("M" if e is None else e for e in v)
    out = "raise" if o.kind == "raise" else "".join(map(str, sorted(set(o.flags.tolist()))))
    ctx.case(f"{tag}|k{len(vectors)}|n{min(len(vectors[0]), 3)}|{np.dtype(dtype)}|{''.join(map(str, sorted(map(str, syms))))}|{out}",
             trivial=len(vectors) == 1 and syms <= {1, 2, 3, 4, 9},
             sample={"vectors": logi, "observed": o.brief()})
    return o, arrs, logi, expect


def laws(ctx, o, arrs, logi, rng) -> None:
    """Relations over recorded results (shape B)."""
    if o.kind != "return":
        return
    base = o.flags.tolist()
    n = len(base)
    # never better than any evaluated input
    for v in logi:
        for i, e in enumerate(v):
            if e in SEV and SEV[int(base[i])] < SEV[e]:
                ctx.violation("C04:law:better-than-an-evaluated-input",
                              {"kind": "relation", "vectors": logi, "output": base, "index": i})
    ctx.count("laws.no_better_than_input")

    def cmp(vs):
        r = client.invoke("qartod.qartod_compare", {"vectors": vs}, check_purity=False)
        return None if r.kind != "return" else r.flags.tolist()

    perm = list(range(len(arrs)))
    rng.shuffle(perm)
    if cmp([arrs[p] for p in perm]) != base:
        ctx.violation("C04:law:permutation", {"kind": "relation", "vectors": logi, "perm": perm, "output": base,
                                             "permuted_output": cmp([arrs[p] for p in perm])})
    ctx.count("laws.permutation")
    dup = arrs + [arrs[rng.randrange(len(arrs))]]
    if cmp(dup) != base:
        ctx.violation("C04:law:duplication", {"kind": "relation", "vectors": logi, "output": base,
                                             "duplicated_output": cmp(dup)})
    ctx.count("laws.duplication")
    if len(arrs) >= 2:
        k = rng.randrange(1, len(arrs))
        a, b = client.invoke("qartod.qartod_compare", {"vectors": arrs[:k]}, check_purity=False), \
            client.invoke("qartod.qartod_compare", {"vectors": arrs[k:]}, check_purity=False)
        if a.kind == "return" and b.kind == "return":
            g = cmp([a.raw, b.raw])
            if g != base:
                ctx.violation("C04:law:grouping", {"kind": "relation", "vectors": logi, "split": k, "output": base,
                                                   "grouped_output": g})
            ctx.count("laws.grouping")
    # history: one of the very same array objects is edited in place (an operator overrides a flag, a masked point is
    # released) and the roll-up is taken again: it is the roll-up of the CURRENT contents
    if n and rng.random() < 0.5:
        j, pos = rng.randrange(len(arrs)), rng.randrange(n)
        newflag = rng.choice([1, 2, 3, 4, 9])
        old_d = np.ma.getdata(arrs[j])[pos].item()
        old_m = bool(np.ma.getmaskarray(arrs[j])[pos])
        arrs[j][pos] = newflag  # also unmasks a masked element of a MaskedArray
        logi2 = [list(v) for v in logi]
        logi2[j][pos] = newflag
        want2 = models.compare(logi2)
        got2 = cmp(arrs)
        ctx.count("laws.in_place_edit_histories")
        if got2 != want2:
            ctx.violation("C04:history:roll-up-of-edited-array-objects",
                          {"kind": "relation", "vectors_before": logi, "edited_vector": j, "position": pos, "new_flag": newflag,
                           "output_before": base, "expected_after": want2, "observed_after": got2})
        # restore the caller's arrays for the remaining laws
        if isinstance(arrs[j], np.ma.MaskedArray):
            np.ma.getdata(arrs[j])[pos] = old_d
            if old_m:
                arrs[j][pos] = np.ma.masked
        else:
            arrs[j][pos] = old_d
    if cmp([o.raw]) != base:
        ctx.violation("C04:law:idempotence", {"kind": "relation", "vectors": logi, "output": base,
                                              "again": cmp([o.raw])})
    ctx.count("laws.idempotence")
    _ = n


def run(ctx) -> None:
    rng = ctx.rng
    ctx.require("compare.calls", 2000)
    ctx.require("laws.permutation", 500)
    ctx.require("laws.grouping", 300)
    i = 0
    for k in (1, 2, 3):
        for combo in itertools.product(OPTIONS, repeat=k):
            i += 1
            if not ctx.mine(i):
                continue
            vectors = [[c] for c in combo]
            dtype = ("uint8", "int64", "float64")[i % 3]
            o, arrs, logi, _ = call(ctx, vectors, dtype, "table")
            if i % 3 == 0:
                laws(ctx, o, arrs, logi, rng)
    for combo in itertools.product(OPTIONS, repeat=4):
        i += 1
        if not ctx.mine(i):
            continue
        if not ctx.thorough and i % 4:
            continue
        vectors = [[combo[0], combo[1]], [combo[2], combo[3]]]
        call(ctx, vectors, ("uint8", "int64", "float64")[i % 3], "table2")
    ctx.exhaustive.append("qartod_compare: k=1..3 vectors x length 1 over 14 (symbol, poison) options; k=2 x length 2 "
                          + ("complete" if ctx.thorough else "every 4th case"))
    # non-flag values of every kind are ignored: fractions, values that wrap to a flag modulo 256, negatives
    for _ in range(ctx.pick(400, 3000)):
        k = rng.choice([1, 2, 3])
        n = rng.choice([1, 2, 4])
        dtype = rng.choice(["float64", "int64", "float32"])
        odd = [3.6, 4.5, 1.5, 8.999, 260.0, 259.0, 265.0, -252.0, -1.0, 1e9] if dtype != "int64" else [260, 259, 265, -252, -1, 257, 1000000]
        vectors = [[(rng.choice(odd), False) if rng.random() < 0.5 else (rng.choice([1, 2, 3, 4, 9]), rng.random() < 0.2)
                    for _ in range(n)] for _ in range(k)]
        arrs = [build(v, dtype) for v in vectors]
        logi = [[None if m else (int(d) if float(d) == int(d) and abs(d) < 1e6 else float(d)) for d, m in v] for v in vectors]
        expect = models.compare(logi)
        o, _ = client.expect(ctx, "C04", "qartod.qartod_compare", {"vectors": arrs}, lambda: [frozenset([e]) for e in expect],
                             logical={"vectors": logi, "dtype": dtype}, hist="qartod_compare")
        ctx.count("compare.calls")
        ctx.count("compare.odd_nonflag_calls")
        ctx.case(f"odd-nonflags|k{k}|n{n}|{dtype}")
    for _ in range(ctx.pick(1500, 8000)):
        k = rng.choice([1, 2, 3, 4, 6])
        n = rng.choice([1, 2, 5, 17, 50])
        pm = rng.choice([0, 0.1, 0.5, 0.9])
        vectors = [[(rng.choice(POISON), True) if rng.random() < pm else
                    (rng.choice(SYMS if rng.random() < 0.3 else [1, 2, 3, 4, 9]), False) for _ in range(n)]
                   for _ in range(k)]
        o, arrs, logi, _ = call(ctx, vectors, rng.choice(["uint8", "int64", "float64"]), "rand",
                                force_masked=rng.random() < 0.3)
        laws(ctx, o, arrs, logi, rng)

    # multiplicity: the same flag held by 255 / 256 / 257 / 512 / 1000 vectors, with or without one better vector
    if ctx.shard == 0:
        for k in (255, 256, 257, 512, 1000):
            for worst in (4, 3, 1, 2, 9):
                for extra in (None, 1, 2, 9, 3):
                    vectors = [[(worst, False), (1, False)] for _ in range(k)]
                    if extra is not None:
                        vectors.append([(extra, False), (rng.choice(POISON), True)])
                    call(ctx, vectors, rng.choice(["uint8", "int64", "float64"]), f"many{k}")
                    ctx.count("compare.many_vector_calls")
    # aggregate() over CollectedResults from real windowed stream runs, and the store's roll-up
    from vfw import plumbing  # noqa: PLC0415

    plumbing.aggregate_workload(ctx, ctx.pick(60, 400))
