"""C06 — collected results land on the right rows (DESIGN §4 C06)."""
from __future__ import annotations

import itertools

import numpy as np

from vfw import core, plumbing as P
from vfw.checks import c05

LEVEL = "exploration"
SHARDS = {"quick": 4, "thorough": 16}
ANCHORS = [("results.py", "collect_results_list"), ("results.py", "collect_results_dict"),
           ("results.py", "CollectedResult.hash_key")]
RULE = ("W1: every choice of 1..3 disjoint contiguous windows (incl. empty and all-covering) over tables of 1..5 "
        "(..7 thorough) rows with unique ids, every arrival order (contexts permuted in the config and the yielded "
        "ContextResults permuted), on PandasStream / NumpyStream(dict) / XarrayStream, 1-2 streams x 1-3 tests "
        "(probe whose flag encodes row id + context tag, plus real pointwise tests), with and without z/lat/lon, "
        "sometimes with a raising test in one context.  Each collected flag must decode to its own row and context; "
        "uncovered rows masked (list) / UNKNOWN (dict); list and dict agree on covered rows; data/time/depth/position "
        "equal the source on covered rows; all orders give the same outcome.  distinct = (front end, number of "
        "windows, coverage pattern class, order, tests, axes); trivial = one all-covering window.")
ASSUMPTIONS = ["ContextResults come from the real streams, which put exactly one CallResult in each; re-grouped "
               "ContextResults carrying several CallResults are judged on the flags only (list and dict form)",
               "windows are disjoint (the statement's order-independence clause)"]
EXHAUSTIVE_ALL = False


def interval_sets(n, kmax=3):
    """all ways to pick 1..kmax disjoint intervals [i, j) with 0 <= i <= j <= n, in increasing order"""
    ivs = [(i, j) for i in range(n + 1) for j in range(i, n + 1)]
    out = []
    for k in range(1, kmax + 1):
        for combo in itertools.combinations(ivs, k):
            ok = all(combo[a][1] <= combo[a + 1][0] for a in range(k - 1))
            # empty intervals at the same position are indistinguishable windows (equal contexts merge)
            if ok and len({c for c in combo}) == k and len({tuple(c) for c in combo if c[0] == c[1]}) == sum(
                    1 for c in combo if c[0] == c[1]):
                out.append(combo)
    return out


def to_window(tb, iv):
    i, j = iv
    s = tb.secs
    a = s[i] if i < tb.n else s[-1] + 1
    b = s[j] if j < tb.n else s[-1] + 1
    if i == 0 and j == tb.n:
        return (s[0] - 5, s[-1] + 5)
    return (a, b)


MASKED_INPUT = False  # set per run: the numpy front end was handed masked arrays


def regroup(res):
    """ContextResults of the same (stream, rows) merged into one carrying several CallResults -- the general
    shape of the ContextResult type (no stream front end produces it)"""
    from ioos_qc.results import ContextResult

    out, index = [], {}
    for r in res:
        key = (r.stream_id, np.asarray(r.subset_indexes).tobytes())
        if key in index:
            old = out[index[key]]
            out[index[key]] = ContextResult(stream_id=old.stream_id, results=[*old.results, *r.results],
                                            subset_indexes=old.subset_indexes, data=old.data, tinp=old.tinp, zinp=old.zinp,
                                            lat=old.lat, lon=old.lon)
        else:
            index[key] = len(out)
            out.append(r)
    return out


def judge_collected(ctx, label, tb, contexts, res, wb, flags_only=False):
    from ioos_qc.results import collect_results

    try:
        clist = collect_results(list(res), how="list")
    except Exception as e:  # noqa: BLE001
        ctx.violation(f"C06:{label}:collect-list-raised:{type(e).__name__}@{P.client_where(e)}",
                      {**wb, "error": repr(e)[:300]})
        clist = None
    try:
        cdict = collect_results(list(res), how="dict")
    except Exception as e:  # noqa: BLE001
        ctx.violation(f"C06:{label}:collect-dict-raised:{type(e).__name__}@{P.client_where(e)}",
                      {**wb, "error": repr(e)[:300]})
        cdict = None
    # expected per (sid, module, test): flags per row (None = not covered)
    exp = {}
    for c in contexts:
        mask = tb.rows_in(c["window"])
        for sid, tests in c["streams"].items():
            for module, test, kwargs in tests:
                fl = c05.direct(module, test, kwargs, tb, mask, sid, masked_input=MASKED_INPUT)
                if fl is None:
                    continue  # cannot run: contributes nothing
                e = exp.setdefault((sid, module, test), [None] * tb.n)
                for pos, f in zip(np.flatnonzero(mask), fl):
                    e[pos] = f
    outcome = {}
    if clist is not None:
        keys = [(cr.stream_id, cr.package, cr.test) for cr in clist]
        if sorted(keys) != sorted(exp) or len(set(keys)) != len(keys):
            ctx.violation(f"C06:{label}:list:result-set",
                          {**wb, "expected": sorted(map(list, exp)), "observed": sorted(map(list, keys))})
        for cr in clist:
            k = (cr.stream_id, cr.package, cr.test)
            if k not in exp:
                continue
            e = exp[k]
            data, mask = np.ma.getdata(cr.results), np.ma.getmaskarray(cr.results)
            got = [None if mask[i] else int(data[i]) for i in range(len(data))] if data.shape == (tb.n,) else repr(data.shape)
            outcome[("list", *k)] = got
            ctx.count("c06.list_results_judged")
            if got != e:
                ctx.violation(f"C06:{label}:list:flags-on-wrong-rows",
                              {**wb, "result": list(k), "expected(None=not covered)": e, "observed(None=masked)": got})
            covered = np.array([v is not None for v in e])
            if flags_only:
                continue
            for name, src, have in (("data", tb.data[cr.stream_id], True), ("tinp", np.array([P.us(v) for v in tb.secs], dtype="int64"), tb.with_time),
                                    ("zinp", tb.z, tb.with_z), ("lat", tb.lat, tb.with_pos), ("lon", tb.lon, tb.with_pos)):
                arr = getattr(cr, name)
                if not have or (name == "data" and MASKED_INPUT):
                    continue  # (a masked source row stays masked in the collected data)
                try:
                    a = np.ma.getdata(arr)
                    if name == "tinp":
                        # (compared as whole microseconds since the epoch)
                        a = np.array([-1 if m_ else v_ for v_, m_ in zip(P._times_to_secs(np.ma.getdata(arr)), np.ma.getmaskarray(arr).reshape(-1))],
                                     dtype="int64") if np.ma.getmaskarray(arr).any() else np.array(P._times_to_secs(np.ma.getdata(arr)), dtype="int64")
                    # (Python scalars compare exactly: an int64 id beyond 2**53 differs from its rounded float64)
                    tol_ = 1 if name == "tinp" else 0  # (instants: whole microseconds, +-1 for float epoch carriers)
                    ok = a.shape == (tb.n,) and all(abs(a[i].item() - np.asarray(src)[i].item()) <= tol_ if tol_ else a[i].item() == np.asarray(src)[i].item()
                                                    for i in range(tb.n) if covered[i]) and not any(
                        np.ma.getmaskarray(arr)[i] for i in range(tb.n) if covered[i])
                except Exception:  # noqa: BLE001
                    ok = False
                if not ok:
                    ctx.violation(f"C06:{label}:list:{name}-differs-from-source",
                                  {**wb, "result": list(k), "covered_rows": np.flatnonzero(covered).tolist(),
                                   "observed": core.jsonable(arr)})
                    break
    if cdict is not None:
        seen = set()
        for sid, mods in cdict.items():
            for module, tests in mods.items():
                for test, arr in tests.items():
                    seen.add((sid, module, test))
        if seen != set(exp):
            ctx.violation(f"C06:{label}:dict:result-set", {**wb, "expected": sorted(map(list, exp)),
                                                           "observed": sorted(map(list, seen))})
        for k in seen & set(exp):
            arr = cdict[k[0]][k[1]][k[2]]
            e = [2 if v is None else v for v in exp[k]]
            got = np.ma.getdata(arr).astype(int).tolist() if np.shape(arr) == (tb.n,) else repr(np.shape(arr))
            outcome[("dict", *k)] = got
            ctx.count("c06.dict_results_judged")
            if got != e or np.ma.getmaskarray(arr).any():
                ctx.violation(f"C06:{label}:dict:flags-on-wrong-rows",
                              {**wb, "result": list(k), "expected(2=not covered)": e, "observed": got})
    return outcome


def run(ctx) -> None:
    rng = ctx.rng
    ctx.require("c06.list_results_judged", 300)
    ctx.require("c06.dict_results_judged", 300)
    ctx.require("c06.order_groups", 100)
    P.install_probes()
    scratch = P.Scratch()
    fes = [("pandas", {}), ("numpy-dict", {}), ("xarray-ds", {}), ("pandas", {"index": "shifted"}), ("netcdf-ds", {}),
           ("numpy-dict", {"masked_input": True}), ("numpy-dict", {"time_carrier": "epoch"})]
    try:
        i = 0
        for n in range(1, ctx.pick(5, 7) + 1):
            sets = interval_sets(n)
            for combo in sets:
                i += 1
                if not ctx.mine(i):
                    continue
                if not ctx.thorough and n >= 4 and i % 3:
                    continue
                nstreams = 1 if i % 4 else 2
                streams = [f"v{k + 1}" for k in range(nstreams)]
                tb = P.Table(n, streams=streams, with_z=bool(i % 3), with_pos=bool(i % 5),
                             secs=None if i % 2 else c05.gen_irregular(rng, n))
                extra = rng.choice([[], [], ["gross"], ["gross", "valid"], ["raise"]])
                contexts = []
                for ci, iv in enumerate(combo):
                    sd = {}
                    for s in streams:
                        tests = [("qartod", "vf_probe_test", {"tag": ci + 1})]
                        for e in extra:
                            if e == "raise":
                                if ci == len(combo) - 1:
                                    tests.append(("qartod", "vf_raise_test", {"kind": rng.choice(["ValueError", "KeyError"])}))
                            else:
                                m, t, kw, _ = c05.REAL_TESTS[e]
                                tests.append((m, t, dict(kw)))
                        sd[s] = tests
                    contexts.append({"window": to_window(tb, iv), "streams": sd})
                fe, opts = fes[i % len(fes)]
                global MASKED_INPUT
                MASKED_INPUT = bool(opts.get("masked_input"))
                label = fe + ("" if not opts else ":" + ",".join(f"{k}={v}" for k, v in sorted(opts.items())))
                outcomes = []
                orders = list(itertools.permutations(range(len(contexts))))
                for oi, order in enumerate(orders):
                    ctxs = [contexts[k] for k in order]
                    P.LOG.clear()
                    res, err = P.run_frontend(fe, tb, P.build_config(ctxs), scratch, opts)
                    P.LOG.clear()
                    wb = {"kind": "collect", "frontend": fe, "opts": opts, "table": tb.describe(),
                          "contexts": core.jsonable(ctxs), "arrival": "config order " + str(list(order))}
                    if err is not None:
                        ctx.violation(f"C06:{label}:run-raised:{type(err).__name__}@{P.client_where(err)}",
                                      {**wb, "error": repr(err)[:300]})
                        continue
                    outcomes.append(judge_collected(ctx, label, tb, ctxs, res, wb))
                    ctx.count("c06.collections")
                    # also permute the yielded ContextResults themselves
                    if len(res) > 1:
                        perm = list(res)
                        rng.shuffle(perm)
                        wb2 = {**wb, "arrival": wb["arrival"] + " + yielded results shuffled"}
                        outcomes.append(judge_collected(ctx, label, tb, ctxs, perm, wb2))
                        ctx.count("c06.collections")
                    if len(res) > 1 and len(extra) >= 1 and "raise" not in extra:
                        # several CallResults per ContextResult: flags (both forms) must still land on the right rows
                        merged = regroup(res)
                        if len(merged) < len(res):
                            judge_collected(ctx, label + ":regrouped", tb, ctxs, merged,
                                            {**wb, "arrival": wb["arrival"] + " + ContextResults of equal rows merged"},
                                            flags_only=True)
                            ctx.count("c06.regrouped_collections")
                    cov = "".join("x" if any(tb.rows_in(c["window"])[r] for c in contexts) else "." for r in range(n))
                    pattern = "all" if "." not in cov else "none" if "x" not in cov else "gaps"
                    ctx.case(f"{label}|k{len(combo)}|{pattern}|empty{sum(1 for a, b in combo if a == b)}|"
                             f"{'+'.join(extra) or 'probe'}|s{nstreams}|z{int(tb.with_z)}p{int(tb.with_pos)}|o{oi}",
                             trivial=len(combo) == 1 and pattern == "all" and not extra,
                             sample={"frontend": fe, "table": tb.describe(), "contexts": core.jsonable(ctxs)})
                if len(outcomes) > 1:
                    ctx.count("c06.order_groups")
                    if any(o != outcomes[0] for o in outcomes[1:]):
                        ctx.violation(f"C06:{label}:order-dependent",
                                      {"kind": "collect", "frontend": fe, "table": tb.describe(),
                                       "contexts": core.jsonable(contexts),
                                       "outcomes": core.jsonable([{"|".join(map(str, k)): v for k, v in o.items()}
                                                                  for o in outcomes[:3]])})
        # ---- special tables: (a) coarse time units with instants outside the datetime64[ns] range, (b) a long record whose
        #      rows are not in time order, so that a window covers non-contiguous rows
        if ctx.shard == 0:
            far = 16725225600  # 2500-01-01
            for unit in ("s", "ms"):
                for n in (4, 7):
                    tb = P.Table(n, streams=("v1",), secs=[far + 3600 * k for k in range(n)], time_unit=unit, with_pos=False)
                    for combo in ([(0, 2), (2, n)], [(1, 3)], [(0, n)], [(2, n), (0, 1)]):
                        ctxs = [{"window": to_window(tb, iv), "streams": {"v1": [("qartod", "vf_probe_test", {"tag": ci + 1})]}}
                                for ci, iv in enumerate(combo)]
                        res, err = P.run_frontend("pandas", tb, P.build_config(ctxs), scratch, {})
                        wb = {"kind": "collect", "frontend": "pandas", "table": tb.describe(), "contexts": core.jsonable(ctxs),
                              "arrival": "config order", "note": f"time column datetime64[{unit}], year 2500"}
                        if err is not None:
                            ctx.violation(f"C06:pandas:far-dates:run-raised:{type(err).__name__}@{P.client_where(err)}", {**wb, "error": repr(err)[:300]})
                            continue
                        judge_collected(ctx, f"pandas:far-dates-{unit}", tb, ctxs, res, wb)
                        ctx.count("c06.far_date_collections")
                        ctx.case(f"far-dates|{unit}|n{n}|k{len(combo)}")
            # (b2) a time column stored in whole seconds with window bounds between two seconds: the row on the earlier
            #      second belongs to the window that ends there, in both forms and whatever the arrival order
            for fe, opts in (("pandas", {}), ("numpy-dict", {}), ("pandas", {"index": "shifted"})):
                for n in (4, 7):
                    tb = P.Table(n, streams=("v1",), secs=[P.T0 + k for k in range(n)], time_unit="s", with_pos=False)
                    for cut in (1, n // 2):
                        for order in ((0, 1), (1, 0)):
                            base = [{"window": (None, tb.secs[cut] + 0.5), "streams": {"v1": [("qartod", "vf_probe_test", {"tag": 1})]}},
                                    {"window": (tb.secs[cut] + 0.5, None), "streams": {"v1": [("qartod", "vf_probe_test", {"tag": 2})]}}]
                            ctxs = [base[k] for k in order]
                            res, err = P.run_frontend(fe, tb, P.build_config(ctxs), scratch, opts)
                            wb = {"kind": "collect", "frontend": fe, "opts": opts, "table": tb.describe(), "contexts": core.jsonable(ctxs),
                                  "arrival": f"config order {list(order)}", "note": "time column datetime64[s], bounds on a half second"}
                            if err is not None:
                                ctx.violation(f"C06:{fe}:half-second-bounds:run-raised:{type(err).__name__}@{P.client_where(err)}", {**wb, "error": repr(err)[:300]})
                                continue
                            judge_collected(ctx, f"{fe}:half-second-bounds", tb, ctxs, res, wb)
                            ctx.count("c06.half_second_bound_collections")
                            ctx.case(f"half-second-bounds|{fe}|{sorted(opts)}|n{n}|cut{cut}|{order}")
            # (b2') instants and bounds with sub-millisecond parts: a row 0.4 ms before a bound is before it
            for fe, opts in (("numpy-dict", {}), ("pandas", {}), ("netcdf-file", {}), ("xarray-ds", {})):
                for n in (4, 7):
                    secs_ = [P.T0 + k + (0.9996 if k % 2 else 0.0) for k in range(n)]
                    tb = P.Table(n, streams=("v1",), secs=secs_, with_pos=False)
                    for cut in (P.T0 + 2, P.T0 + 2.0003, P.T0 + 1.9998):
                        for order in ((0, 1), (1, 0)):
                            basec = [{"window": (None, cut), "streams": {"v1": [("qartod", "vf_probe_test", {"tag": 1})]}},
                                     {"window": (cut, None), "streams": {"v1": [("qartod", "vf_probe_test", {"tag": 2})]}}]
                            ctxs = [basec[k] for k in order]
                            res, err = P.run_frontend(fe, tb, P.build_config(ctxs), scratch, opts)
                            wb = {"kind": "collect", "frontend": fe, "opts": opts, "table": tb.describe(), "contexts": core.jsonable(ctxs),
                                  "arrival": f"config order {list(order)}", "note": "instants 0.4 ms before whole seconds, bound near one of them"}
                            if err is not None:
                                ctx.violation(f"C06:{fe}:sub-ms:run-raised:{type(err).__name__}@{P.client_where(err)}", {**wb, "error": repr(err)[:300]})
                                continue
                            judge_collected(ctx, f"{fe}:sub-ms", tb, ctxs, res, wb)
                            ctx.count("c06.sub_millisecond_collections")
                            ctx.case(f"sub-ms|{fe}|n{n}|{cut - P.T0}|{order}")
            # (b3) rows that are not in time order (a window then covers scattered rows), frames whose index labels repeat, and
            #      two records of equal length and equal first / last instant run one after the other with the same windows
            for fe, opts in (("pandas", {}), ("pandas", {"index": "duplicated"}), ("pandas", {"index": "constant"}), ("numpy-dict", {}),
                             ("xarray-ds", {}), ("netcdf-ds", {})):
                for n in (5, 6, 9):
                    base_secs = [P.T0 + 60 * k for k in range(n)]
                    burst = [P.T0 + k for k in range(n - 1)] + [base_secs[-1]]
                    shuffled = list(base_secs)
                    rng.shuffle(shuffled)
                    cutv = base_secs[n // 2]
                    for label, secs_ in (("regular", base_secs), ("burst-same-ends", burst), ("shuffled", shuffled), ("regular-again", base_secs)):
                        tb = P.Table(n, streams=("v1",), secs=secs_, with_pos=False)
                        for order in ((0, 1), (1, 0)):
                            basec = [{"window": (None, cutv), "streams": {"v1": [("qartod", "vf_probe_test", {"tag": 1})]}},
                                     {"window": (cutv, None), "streams": {"v1": [("qartod", "vf_probe_test", {"tag": 2})]}}]
                            ctxs = [basec[k] for k in order]
                            res, err = P.run_frontend(fe, tb, P.build_config(ctxs), scratch, opts)
                            wb = {"kind": "collect", "frontend": fe, "opts": opts, "table": tb.describe(), "contexts": core.jsonable(ctxs),
                                  "arrival": f"config order {list(order)}", "note": f"{label} time axis; run right after the other axes of this group"}
                            if err is not None:
                                ctx.violation(f"C06:{fe}:axis-group:run-raised:{type(err).__name__}@{P.client_where(err)}", {**wb, "error": repr(err)[:300]})
                                continue
                            lbl = fe + ("" if not opts else ":" + ",".join(f"{k}={v}" for k, v in sorted(opts.items())))
                            judge_collected(ctx, f"{lbl}:{label}", tb, ctxs, res, wb)
                            ctx.count("c06.axis_group_collections")
                            ctx.case(f"axis-group|{lbl}|{label}|n{n}|{order}")
            # (c) integer observations beyond 2**53 (counts, raw ADC words, epoch nanoseconds): the collected data still
            #     equal the source on covered rows, whatever part of the record each window covers
            for fe in ("pandas", "numpy-dict", "xarray-ds"):
                for n in (4, 7):
                    for dt_, base_ in (("int64", 2 ** 60 + 1), ("int64", -(2 ** 62) + 3), ("uint64", 2 ** 63 + 5), ("int32", 2 ** 30 + 1)):
                        tb = P.Table(n, streams=("v1",), with_pos=False)
                        tb.data["v1"] = np.array([base_ + 3 * r for r in range(n)], dtype=dt_)
                        for combo in ([(1, 3)], [(0, 2), (2, n)], [(2, n), (0, 1)], [(0, n)], [(0, n), (1, 2)]):
                            ctxs = [{"window": to_window(tb, iv), "streams": {"v1": [("qartod", "vf_probe_test", {"tag": ci + 1})]}}
                                    for ci, iv in enumerate(combo)]
                            res, err = P.run_frontend(fe, tb, P.build_config(ctxs), scratch, {})
                            wb = {"kind": "collect", "frontend": fe, "table": tb.describe(), "contexts": core.jsonable(ctxs),
                                  "arrival": "config order", "note": f"stream data are {dt_} values {base_} + 3*row"}
                            if err is not None:
                                ctx.violation(f"C06:{fe}:big-integers:run-raised:{type(err).__name__}@{P.client_where(err)}", {**wb, "error": repr(err)[:300]})
                                continue
                            judge_collected(ctx, f"{fe}:big-integers", tb, ctxs, res, wb)
                            ctx.count("c06.big_integer_collections")
                            ctx.case(f"big-integers|{fe}|{dt_}|n{n}|k{len(combo)}")
            n = 20001
            secs = [P.T0 + (k // 2) * 60 + (31 * 86400 if k % 2 else 0) for k in range(n)]  # rows alternate between two months
            tb = P.Table(n, streams=("v1",), secs=secs, with_pos=False)
            cut = P.T0 + 20 * 86400
            for fe in ("pandas", "numpy-dict"):
                for order in ((0, 1), (1, 0)):
                    base = [{"window": (None, cut), "streams": {"v1": [("qartod", "vf_probe_test", {"tag": 1})]}},
                            {"window": (cut, None), "streams": {"v1": [("qartod", "vf_probe_test", {"tag": 2})]}}]
                    ctxs = [base[k] for k in order]
                    res, err = P.run_frontend(fe, tb, P.build_config(ctxs), scratch, {})
                    wb = {"kind": "collect", "frontend": fe, "table": tb.describe(), "contexts": core.jsonable(ctxs),
                          "arrival": f"config order {list(order)}", "note": "20001 rows alternating between two months"}
                    if err is not None:
                        ctx.violation(f"C06:{fe}:long-interleaved:run-raised:{type(err).__name__}@{P.client_where(err)}", {**wb, "error": repr(err)[:300]})
                        continue
                    judge_collected(ctx, f"{fe}:long-interleaved", tb, ctxs, res, wb)
                    ctx.count("c06.long_interleaved_collections")
                    ctx.case(f"long-interleaved|{fe}|{order}")
        ctx.exhaustive.append("all sets of 1..3 disjoint contiguous windows over n<=3 rows (n>=4: every 3rd in quick) x all arrival orders")
    finally:
        scratch.close()
        P.remove_probes()
