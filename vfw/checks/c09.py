"""C09 — spike: two neighbours only (DESIGN §4 C09)."""
from __future__ import annotations

import itertools

import numpy as np

from vfw import client, gen, models

LEVEL = "exploration"
SHARDS = {"quick": 4, "thorough": 16}
ANCHORS = [("qartod.py", "spike_test")]
RULE = ("all series of length 1..4 (1..5 thorough) over {0, 1/2, 1, 2, 4, -2, missing} x all (suspect, fail) "
        "threshold pairs over {None, 0, 1/4, 1/2, 1, 2, 3} (quick: {None, 0, 1/2, 1, 3}) x both methods, then seeded "
        "plateau/ramp/spike/double-spike series (also scaled by 2^-40 and 2^30) with thresholds drawn from the spike magnitudes "
        "actually present (so d == threshold occurs constantly) or a 2^-20 relative hair below/above one, then unknown method names.  distinct = (method, "
        "length class, missing class, which thresholds are given / zero / fail<suspect, set of flags); trivial = all "
        "GOOD apart from the UNKNOWN end points.")
ASSUMPTIONS = ["values are dyadic so the spike magnitude is exact in float64"]
EXHAUSTIVE_ALL = False

SYMS = [0.0, 0.5, 1.0, 2.0, 4.0, -2.0, None]


def tclass(st, ft):
    def c(v):
        return "none" if v is None else "zero" if v == 0 else "pos"
    rel = ""
    if st is not None and ft is not None:
        rel = "f<s" if ft < st else "f=s" if ft == st else "f>s"
    return f"{c(st)},{c(ft)},{rel}"


def one(ctx, x, st, ft, method, tag, carrier="arr") -> None:
    if carrier == "masked-real" and any(v is None for v in x):
        # history: the unmasked buffer was run just before; now the same numbers with some of them masked by an upstream check
        raw = np.array([(ctx.rng.choice([0.0, 100.0, -100.0, 1.0]) if v is None else v) for v in x], dtype=float)
        client.invoke("qartod.spike_test", {"inp": raw.copy(), "suspect_threshold": st, "fail_threshold": ft, "method": method}, check_purity=False)
        kw = {"inp": np.ma.MaskedArray(raw, mask=[v is None for v in x]), "suspect_threshold": st, "fail_threshold": ft, "method": method}
        client.expect(ctx, "C09", "qartod.spike_test", kw, lambda: models.spike(x, st, ft, method),
                      logical={"x": x, "suspect_threshold": st, "fail_threshold": ft, "method": method,
                               "carrier": "masked array over the numbers of the previous (unmasked) call", "buffer": raw.tolist()},
                      hist=f"spike.{method}")
        ctx.count("spike.calls")
        ctx.count("spike.raw_then_masked_histories")
        ctx.case(f"{tag}|raw-then-masked|{method}|n{gen.nclass(len(x))}")
        return
    inp = (gen.arr(x) if carrier == "arr" else list(x) if carrier == "list-none" else gen.nanlist(x) if carrier == "list-nan"
           else gen.carried(ctx.rng, x, poisons=(0.0, 100.0, -100.0, 1.0), p_masked=1.0))
    kw = {"inp": inp, "suspect_threshold": gen.ptype(ctx.rng, st), "fail_threshold": gen.ptype(ctx.rng, ft), "method": method}
    o, adm = client.expect(ctx, "C09", "qartod.spike_test", kw,
                           lambda: models.spike(x, st, ft, method),
                           logical={"x": x, "suspect_threshold": st, "fail_threshold": ft, "method": method,
                                    "carrier": carrier}, hist=f"spike.{method}")
    ctx.count("spike.calls")
    fset = gen.flagset(o)
    ctx.case(f"{tag}|{method}|n{gen.nclass(len(x))}|m{gen.mclass(x)}|{tclass(st, ft)}|{fset}",
             trivial=fset in ("12", "2"),
             sample={"x": x, "suspect_threshold": st, "fail_threshold": ft, "method": method, "observed": o.brief()})


def run(ctx) -> None:
    ctx.require("spike.calls", 1000)
    ctx.require("spike.on_threshold_cases", 20)
    thr = ctx.pick([None, 0, 0.5, 1, 3], [None, 0, 0.25, 0.5, 1, 2, 3])
    nmax = ctx.pick(4, 5)
    i = 0
    for n in range(1, nmax + 1):
        for x in itertools.product(SYMS, repeat=n):
            i += 1
            if not ctx.mine(i):
                continue
            x = list(x)
            for st in thr:
                for ft in thr:
                    for method in ("average", "differential"):
                        one(ctx, x, st, ft, method, "enum")
    ctx.exhaustive.append(f"spike_test: all series of length 1..{nmax} over 7 symbols x {len(thr)}^2 threshold pairs x 2 methods")

    rng = ctx.rng
    for _ in range(ctx.pick(1200, 6000)):
        n = rng.choice([3, 4, 5, 6, 8, 13, 40, 40, 101, ctx.pick(300, 1500)])
        x = gen.series(rng, n, pmiss=rng.choice([0, 0.1, 0.3]))
        scale = rng.choice([1, 1, 1, 1, 2.0 ** -40, 2.0 ** 30, "tenths"])  # the comparison is exact at every magnitude
        if scale == "tenths":
            # decimal data (12.1, 12.4, ...): the magnitude is the float64 value of |x - (a + c) / 2|, nothing more, nothing less
            x = [None if v is None else rng.randrange(100, 140) / 10 for v in x]
            scale = 1
        if scale != 1:
            x = [None if v is None else v * scale for v in x]
        method = rng.choice(["average", "differential"])
        ds = sorted({models.spike_d(x[k - 1], x[k], x[k + 1], method) for k in range(1, n - 1)
                     if None not in (x[k - 1], x[k], x[k + 1])})
        # thresholds equal to a magnitude present, and a hair (2^-20 relative) below / above one: "exceeds" is exact
        near = [d * f for d in ds if d for f in (1 - 2.0 ** -20, 1 + 2.0 ** -20)]
        pool = [None, 0, *ds, *(d + 0.25 * scale for d in ds[:2]), *rng.sample(near, min(3, len(near)))]
        st, ft = rng.choice(pool), rng.choice(pool)
        if (st in ds and st) or (ft in ds and ft):
            ctx.count("spike.on_threshold_cases")
        if st in near or ft in near:
            ctx.count("spike.hairline_threshold_cases")
        one(ctx, x, st, ft, method, "rand", carrier=rng.choice(["arr", "list-none", "list-nan", "masked-finite", "masked-real"]))

    if ctx.shard == 0:
        # very long series: spikes and missing values placed around powers of two (chunk boundaries of any blocked variant)
        for n in (70001, ctx.pick(140000, 300000)):
            x = [1013.25 + 0.25 * ((k * 7) % 5) for k in range(n)]
            for b in (4096, 16384, 32768, 65536, 131072, 262144):
                for off in (-1, 0, 1):
                    if 1 <= b + off < n - 1:
                        x[b + off] += rng.choice([3.0, -3.0, 8.0])
                if b + 2 < n and rng.random() < 0.5:
                    x[b + 2] = None
            for method in ("average", "differential"):
                one(ctx, x, 1.5, 5, method, f"huge{n}")
        # float32 input whose values are float32-exact while their neighbour sums are not
        for _ in range(40):
            n = rng.choice([3, 4, 6, 9])
            x = [float(2 ** 24 + 2 * rng.randrange(0, 6)) for _ in range(n)]
            for method in ("average", "differential"):
                st, ft = rng.choice([0.5, 1.0, 1.5]), rng.choice([2.5, 3.0])
                kw = {"inp": np.array(x, dtype=np.float32), "suspect_threshold": st, "fail_threshold": ft, "method": method}
                client.expect(ctx, "C09", "qartod.spike_test", kw, lambda: models.spike(x, st, ft, method),
                              logical={"x": x, "suspect_threshold": st, "fail_threshold": ft, "method": method, "carrier": "float32"},
                              hist=f"spike.{method}")
                ctx.count("spike.calls")
                ctx.case(f"f32-large|{method}|n{n}")
        # whole-number observations in every integer dtype (raw counts): neighbour sums and down-steps are computed as numbers
        for _ in range(ctx.pick(60, 300)):
            n = rng.choice([3, 4, 6, 9])
            hi = rng.choice([120, 250, 60000, 4_000_000_000])
            x = [rng.randrange(hi // 2, hi) for _ in range(n)]
            x[rng.randrange(n)] = rng.randrange(0, hi // 4)
            for method in ("average", "differential"):
                ds_ = sorted({models.spike_d(float(x[k - 1]), float(x[k]), float(x[k + 1]), method) for k in range(1, n - 1)})
                st, ft = rng.choice([0.5, ds_[0], ds_[len(ds_) // 2]]), rng.choice([ds_[-1], ds_[-1] + 1, ds_[len(ds_) // 2]])
                fx = [float(v) for v in x]
                for cname, arr_ in gen.int_carriers(x):
                    kw = {"inp": arr_, "suspect_threshold": st, "fail_threshold": ft, "method": method}
                    client.expect(ctx, "C09", "qartod.spike_test", kw, lambda: models.spike(fx, st, ft, method),
                                  logical={"x": x, "suspect_threshold": st, "fail_threshold": ft, "method": method, "carrier": cname},
                                  hist=f"spike.{method}")
                    ctx.count("spike.calls")
                    ctx.count("spike.integer_dtype_calls")
                    ctx.case(f"int-dtype|{cname}|{method}|n{n}")
        for bad in ("Average", "avg", "", "diff", None, 3):
            o = client.invoke("qartod.spike_test", {"inp": np.array([1.0, 2.0, 1.0]), "suspect_threshold": 1,
                                                    "fail_threshold": 2, "method": bad})
            ctx.count("spike.calls")
            ctx.case(f"badmethod|{bad!r}")
            if not (o.kind == "raise" and isinstance(o.exc, ValueError)):
                ctx.violation("C09:unknown-method-not-rejected",
                              {"kind": "call", "func": "qartod.spike_test", "case": {"method": bad}, "observed": o.brief()})
