"""C03 — range tests: inclusive membership, fail before suspect (DESIGN §4 C03)."""
from __future__ import annotations

import itertools

import numpy as np
import pandas as pd

from vfw import client, gen, models

LEVEL = "exploration"
SHARDS = {"quick": 2, "thorough": 16}
ANCHORS = [("qartod.py", "gross_range_test"), ("axds.py", "valid_range_test"), ("utils.py", "isfixedlength")]
RULE = ("gross_range_test: every fail span (ordered and reversed pairs over the grid -2..3, incl. degenerate) x every "
        "suspect span over the same grid or none x a series holding every bound, every bound +-1/2, NaN and None, "
        "rendered with list/tuple spans and ndarray/list data; valid_range_test: every span lo<=hi over the grid with "
        "None on either/both sides x 4 inclusivity settings x float/int ndarray, pandas Series, datetime64, list+dtype "
        "carriers; plus seeded long series.  distinct = (function, span-relation class, carrier, set of flags "
        "produced or rejection); trivial = all GOOD.")
ASSUMPTIONS = ["valid_range_test on an integer dtype with a None bound is outside the claimed domain",
               "values and bounds are small dyadic numbers so comparisons are exact"]
EXHAUSTIVE_ALL = False

GRID = [-2, -1, 0, 1, 2, 3]
VALUES = sorted({g + d for g in GRID for d in (-0.5, 0, 0.5)})


def relation(fail, suspect):
    flo, fhi = sorted(fail)
    r = ["rev" if fail[0] > fail[1] else "deg" if fail[0] == fail[1] else "ord"]
    if suspect is None:
        r.append("nosus")
    else:
        slo, shi = sorted(suspect)
        r.append("srev" if suspect[0] > suspect[1] else "sdeg" if slo == shi else "sord")
        if slo < flo or shi > fhi:
            r.append("out")
        elif (slo, shi) == (flo, fhi):
            r.append("equal")
        elif slo == flo or shi == fhi:
            r.append("touch")
        else:
            r.append("inside")
    return "/".join(r)


def run(ctx) -> None:
    global GRID, VALUES
    if ctx.thorough:
        GRID = [-3, -2, -1, 0, 1, 2, 3, 4]
        VALUES = sorted({g + d for g in GRID for d in (-0.5, 0, 0.5)})
    ctx.require("gross_range.calls", 100)
    ctx.require("valid_range.calls", 100)
    ctx.require("gross_range.rejections_observed", 10)
    data_list = [*VALUES, float("nan"), None]
    data_arr = np.array([np.nan if v is None else v for v in data_list], dtype=float)
    logical = [None if (v is None or v != v) else v for v in data_list]
    i = 0
    pairs = list(itertools.product(GRID, GRID))
    for fail in pairs:
        for suspect in [None, *pairs]:
            i += 1
            if not ctx.mine(i):
                continue
            for carrier in ("list", "tuple"):
                fs_ = list(fail) if carrier == "list" else tuple(fail)
                ss_ = None if suspect is None else (list(suspect) if carrier == "list" else tuple(suspect))
                inp = data_arr if carrier == "list" else list(data_list)
                kw = {"inp": inp, "fail_span": fs_}
                if suspect is not None or carrier == "tuple":
                    kw["suspect_span"] = ss_
                o, adm = client.expect(
                    ctx, "C03", "qartod.gross_range_test", kw,
                    lambda: models.gross_range(logical, fail, suspect),
                    logical={"values": logical, "fail_span": fail, "suspect_span": suspect, "carrier": carrier},
                    hist="gross_range")
                ctx.count("gross_range.calls")
                if o.kind == "raise":
                    ctx.count("gross_range.rejections_observed")
                fset = "raise" if o.kind == "raise" else "".join(map(str, sorted(set(o.flags.tolist()))))
                ctx.case(f"gr|{relation(fail, suspect)}|{carrier}|{fset}",
                         sample={"func": "gross_range_test", "fail_span": fail, "suspect_span": suspect,
                                 "values": logical, "observed": o.brief()})
    ctx.exhaustive.append("gross_range_test: 36 fail spans x 37 suspect spans x 20-value boundary series")

    # the span relation is judged whatever the data: empty and all-missing series still reject a non-contained suspect span
    if ctx.shard == 0:
        degenerate = {"empty": (np.array([], dtype=float), []), "all-nan": (np.array([np.nan] * 3), [None] * 3),
                      "all-none-list": ([None, None], [None] * 2),
                      "all-masked": (np.ma.MaskedArray(np.array([1.0, 2.0]), mask=[True, True]), [None] * 2),
                      "all-nan-2d": (np.full((2, 2), np.nan), [None] * 4)}
        for fail in [(0, 3), (3, 0), (1, 1), (-2, 2)]:
            for suspect in [None, (1, 2), (0, 3), (-1, 2), (1, 4), (4, 5), (2, -3)]:
                for dname, (inp, dlog) in degenerate.items():
                    kw = {"inp": inp, "fail_span": list(fail)}
                    if suspect is not None:
                        kw["suspect_span"] = list(suspect)
                    o, _ = client.expect(ctx, "C03", "qartod.gross_range_test", kw, lambda: models.gross_range(dlog, fail, suspect),
                                         logical={"values": dlog, "fail_span": fail, "suspect_span": suspect, "carrier": dname},
                                         hist="gross_range")
                    ctx.count("gross_range.calls")
                    if o.kind == "raise":
                        ctx.count("gross_range.rejections_observed")
                    ctx.case(f"gr|no-present-values|{dname}|{relation(fail, suspect)}|{'raise' if o.kind == 'raise' else 'flags'}")
        # values a hair (one ulp, 2^-40 relative) outside / inside a limit: "strictly outside" is exact at every magnitude
        for L, H in [(0.1, 0.3), (-2.0, 3.0), (1e6, 1e6 + 1), (1e-9, 2e-9), (-1e15, 1e15), (0.30000000000000004, 0.7)]:
            for SL, SH in [(None, None), (L + (H - L) * 0.25, H - (H - L) * 0.25)]:
                vals = []
                for b in (L, H, SL, SH):
                    if b is None:
                        continue
                    vals += [b, float(np.nextafter(b, -np.inf)), float(np.nextafter(b, np.inf)), b * (1 - 2.0 ** -40), b * (1 + 2.0 ** -40),
                             b * (1 - 2.0 ** -31), b * (1 + 2.0 ** -31)]
                suspect = None if SL is None else (SL, SH)
                kw = {"inp": np.array(vals), "fail_span": [L, H]}
                if suspect:
                    kw["suspect_span"] = list(suspect)
                client.expect(ctx, "C03", "qartod.gross_range_test", kw, lambda: models.gross_range(vals, (L, H), suspect),
                              logical={"values": vals, "fail_span": [L, H], "suspect_span": suspect, "note": "values within an ulp .. 2^-31 relative of a limit"},
                              hist="gross_range")
                ctx.count("gross_range.calls")
                ctx.count("gross_range.hairline_calls")
                ctx.case(f"gr|hairline|{L}|{'sus' if suspect else 'nosus'}")
                if suspect is None:
                    kw = {"inp": np.array(vals), "valid_span": (L, H), "start_inclusive": True, "end_inclusive": True}
                    client.expect(ctx, "C03", "axds.valid_range_test", kw, lambda: models.valid_range(vals, L, H, True, True),
                                  logical={"values": vals, "valid_span": [L, H], "start_inclusive": True, "end_inclusive": True,
                                           "note": "values within an ulp .. 2^-31 relative of a bound"}, hist="valid_range")
                    ctx.count("valid_range.calls")
                    ctx.case(f"vr|hairline|{L}")

    # integer-typed observations against limits that fall between integers (counts vs. a 0.5 limit): judged as numbers
    if ctx.shard == ctx.nshards - 1:
        ivals = list(range(-3, 5))
        for fail in [(-1.5, 2.5), (0.5, 2.5), (-2.5, -0.5), (2.5, -1.5), (-0.5, 0.5), (0.25, 3.75)]:
            flo, fhi = sorted(fail)
            for suspect in [None, (flo + 1, fhi - 1), (flo + 0.5, fhi - 0.5), (fhi - 1, flo + 1)]:
                if suspect is not None and not (flo <= min(suspect) <= max(suspect) <= fhi):
                    continue
                for cname, mk in (("int64", lambda v: np.array(v, dtype=np.int64)), ("int8", lambda v: np.array(v, dtype=np.int8)),
                                  ("list-int", lambda v: [int(k) for k in v]),
                                  ("uint8", lambda v: np.array([k for k in v if k >= 0], dtype=np.uint8)),
                                  ("masked-int32", lambda v: np.ma.MaskedArray(np.array(v, dtype=np.int32), mask=[k == 1 for k in v]))):
                    inp = mk(ivals)
                    lv = [k for k in ivals if k >= 0] if cname == "uint8" else [None if k == 1 else k for k in ivals] if cname == "masked-int32" else ivals
                    kw = {"inp": inp, "fail_span": list(fail)}
                    if suspect is not None:
                        kw["suspect_span"] = list(suspect)
                    client.expect(ctx, "C03", "qartod.gross_range_test", kw, lambda: models.gross_range(lv, fail, suspect),
                                  logical={"values": lv, "fail_span": fail, "suspect_span": suspect, "carrier": cname}, hist="gross_range")
                    ctx.count("gross_range.calls")
                    ctx.count("gross_range.integer_data_fractional_limit_calls")
                    ctx.case(f"gr|int-data|{cname}|{relation(fail, suspect)}")

    # ---- histories and layouts (last shard)
    if ctx.shard == ctx.nshards - 1:
        # (a) the same span used on single- and double-precision data one after the other, in either order: each call
        #     compares in ITS data's precision (the documented cast of the span to the data's dtype)
        for lo, hi in [(0.1, 0.3), (0.7, 1.1), (-0.3, 0.1), (1e-3, 16777217.0)]:
            span = (lo, hi)
            base = [lo, hi, float(np.float32(lo)), float(np.float32(hi)), float(np.nextafter(lo, 1e9)), float(np.nextafter(hi, -1e9)),
                    (lo + hi) / 2, lo - 1, hi + 1]
            for order in (("float32", "float64"), ("float64", "float32"), ("float32", "float64", "float32")):
                for dt_ in order:
                    arr_ = np.array(base, dtype=dt_)
                    lv = [float(v) for v in arr_]
                    mlo, mhi = (float(np.float32(lo)), float(np.float32(hi))) if dt_ == "float32" else (lo, hi)
                    for si, ei in ((True, False), (True, True)):
                        kw = {"inp": arr_, "valid_span": span, "start_inclusive": si, "end_inclusive": ei}
                        client.expect(ctx, "C03", "axds.valid_range_test", kw, lambda: models.valid_range(lv, mlo, mhi, si, ei),
                                      logical={"values": lv, "valid_span": [lo, hi], "dtype": dt_, "si": si, "ei": ei,
                                               "history": "same span on " + " then ".join(order)}, hist="valid_range")
                        ctx.count("valid_range.calls")
                        ctx.count("valid_range.precision_history_calls")
                ctx.case(f"vr|precision-history|{lo}|{'>'.join(order)}")
        # (b) N-D data in C order, Fortran order and as a transposed view: the flag of an element sits at that element's index
        vals2 = [[-2.5, 0.0, 3.5], [1.0, 2.0, -1.0]]
        for lname, mk in (("C", lambda a: np.ascontiguousarray(a)), ("F", lambda a: np.asfortranarray(a)), ("T-view", lambda a: np.ascontiguousarray(a.T).T),
                          ("masked-F", lambda a: np.ma.MaskedArray(np.asfortranarray(a), mask=np.asfortranarray(np.isnan(a))))):
            a2 = mk(np.array(vals2))
            flat = [v for row in vals2 for v in row]
            for fname, kw, model in (("qartod.gross_range_test", {"inp": a2, "fail_span": [-2, 3], "suspect_span": [-1, 2]},
                                      lambda: models.gross_range(flat, (-2, 3), (-1, 2))),
                                     ("axds.valid_range_test", {"inp": a2, "valid_span": (-1.0, 2.0)},
                                      lambda: models.valid_range(flat, -1.0, 2.0, True, False))):
                o = client.invoke(fname, kw)
                ctx.count("gross_range.calls" if "gross" in fname else "valid_range.calls")
                ctx.case(f"nd-layout|{fname}|{lname}")
                want = [sorted(s_)[0] for s_ in model()]
                got = None if o.kind != "return" or o.flags is None else (np.asarray(o.flags).tolist() if np.shape(o.flags) == (2, 3) else repr(np.shape(o.flags)))
                if got != [want[:3], want[3:]]:
                    ctx.violation(f"C03:nd-layout:{fname}:{lname}", {"kind": "call", "func": fname, "layout": lname, "values": vals2,
                                                                     "expected": [want[:3], want[3:]], "observed": o.brief()})
        # (c) time values given as a plain list of datetime64 scalars (no dtype argument), span in another unit
        tt = np.array(["2021-03-01T00:00:00", "2021-03-01T00:00:02", "2021-03-01T00:00:04", "NaT", "2021-03-01T00:00:06"], dtype="datetime64[s]")
        tl = [0, 2, 4, None, 6]
        for unit_v, unit_s in (("s", "ns"), ("ns", "s"), ("ms", "m"), ("s", "s")):
            for a_, b_ in ((2, 6), (0, 4), (None, 4), (2, None)):
                if unit_s == "m" and (a_ or b_):
                    a_, b_ = (0 if a_ is not None else None), (60 if b_ is not None else None)
                mkb = lambda v: None if v is None else (np.datetime64("2021-03-01T00:00:00", "s") + np.timedelta64(v, "s")).astype(f"datetime64[{unit_s}]")  # noqa: E731
                kw = {"inp": list(tt.astype(f"datetime64[{unit_v}]")), "valid_span": (mkb(a_), mkb(b_))}
                client.expect(ctx, "C03", "axds.valid_range_test", kw, lambda: models.valid_range(tl, a_, b_, True, False),
                              logical={"seconds": tl, "valid_span_s": [a_, b_], "carrier": f"list of datetime64[{unit_v}] scalars, span in [{unit_s}]"},
                              hist="valid_range")
                ctx.count("valid_range.calls")
                ctx.case(f"vr|dt64-scalar-list|{unit_v}|{unit_s}|{a_}|{b_}")

    # ---- the inclusivity options reach the function however the call is spelled: positionally (documented order inp,
    #      valid_span, dtype, start_inclusive, end_inclusive) and as parameters of a configured test (QcConfig / Call.run)
    if ctx.shard == 0:
        from ioos_qc.config import QcConfig  # noqa: PLC0415

        fnv = client.resolve("axds.valid_range_test")
        vals_ = [-1.0, 0.0, 1.0, 2.0, 3.0, float("nan")]
        lvals_ = [None if v != v else v for v in vals_]
        for lo, hi in ((0, 2), (1, 3), (0.0, 0.0)):
            for si, ei in itertools.product([True, False], repeat=2):
                want = [sorted(s_)[0] for s_ in models.valid_range(lvals_, lo, hi, si, ei)]
                spellings = {"positional": lambda: fnv(np.array(vals_), (lo, hi), None, si, ei),
                             "QcConfig": lambda: QcConfig({"axds": {"valid_range_test": {"valid_span": [lo, hi], "start_inclusive": si,
                                                                                       "end_inclusive": ei}}}).run(inp=np.array(vals_))["axds"]["valid_range_test"]}
                for sname, fn_ in spellings.items():
                    try:
                        got = np.ma.getdata(fn_()).astype(int).tolist()
                    except Exception as e:  # noqa: BLE001
                        got = f"raised {type(e).__name__}: {e}"[:200]
                    ctx.count("valid_range.calls")
                    ctx.count("valid_range.other_call_spellings")
                    ctx.case(f"vr|spelling|{sname}|{si}{ei}|{'deg' if lo == hi else 'ord'}")
                    if got != want:
                        ctx.violation(f"C03:valid_range:{sname}-call:flags", {"kind": "call", "func": "axds.valid_range_test", "spelling": sname,
                                                                            "values": lvals_, "valid_span": [lo, hi], "start_inclusive": si,
                                                                            "end_inclusive": ei, "expected": want, "observed": got})

    # ---- an explicit dtype argument decides the type the comparison is made in, also for data that carry a dtype of their own
    if ctx.shard == 0:
        ivals = list(range(-3, 5))
        for lo, hi in ((0.5, 2.5), (-1.5, 0.5), (1.5, 1.5)):
            for cname, arr_ in (("int64", np.array(ivals, dtype=np.int64)), ("int8", np.array(ivals, dtype=np.int8)),
                                ("masked-int32", np.ma.MaskedArray(np.array(ivals, dtype=np.int32), mask=[k == 1 for k in ivals])),
                                ("int-series", pd.Series(np.array(ivals, dtype=np.int64)))):
                lv = [None if (cname == "masked-int32" and k == 1) else float(k) for k in ivals]
                for si, ei in ((True, False), (True, True), (False, False)):
                    kw = {"inp": arr_, "valid_span": (lo, hi), "dtype": np.float64, "start_inclusive": si, "end_inclusive": ei}
                    client.expect(ctx, "C03", "axds.valid_range_test", kw, lambda: models.valid_range(lv, lo, hi, si, ei),
                                  logical={"values": lv, "valid_span": [lo, hi], "carrier": cname + " with dtype=float64", "si": si, "ei": ei}, hist="valid_range")
                    ctx.count("valid_range.calls")
                    ctx.count("valid_range.explicit_dtype_on_typed_data_calls")
                    ctx.case(f"vr|explicit-dtype|{cname}|{lo}|{si}{ei}")
        t0_ = np.datetime64("2021-03-01T00:00:00", "s")
        tarr_ = np.array([t0_ + np.timedelta64(k, "s") for k in range(5)], dtype="datetime64[s]")
        for a_, b_ in ((0.5, 2.5), (1.5, 3.5)):
            sp_ = (t0_.astype("datetime64[ms]") + np.timedelta64(int(a_ * 1000), "ms"), t0_.astype("datetime64[ms]") + np.timedelta64(int(b_ * 1000), "ms"))
            kw = {"inp": tarr_, "valid_span": sp_, "dtype": np.dtype("datetime64[ms]")}
            client.expect(ctx, "C03", "axds.valid_range_test", kw, lambda: models.valid_range([0, 1, 2, 3, 4], a_, b_, True, False),
                          logical={"seconds": [0, 1, 2, 3, 4], "valid_span_s": [a_, b_], "carrier": "datetime64[s] data with dtype=datetime64[ms]"}, hist="valid_range")
            ctx.count("valid_range.calls")
            ctx.case(f"vr|explicit-dtype|dt64|{a_}")

    # malformed spans are rejected (isfixedlength)
    if ctx.shard == 0:
        for bad in ([1], [1, 2, 3], (), "ab"):
            for which in ("fail_span", "suspect_span"):
                kw = {"inp": data_arr, "fail_span": [0, 3], "suspect_span": [1, 2]}
                kw[which] = bad
                o = client.invoke("qartod.gross_range_test", kw)
                ctx.count("gross_range.calls")
                ctx.case(f"gr|malformed|{which}|{type(bad).__name__}{len(bad)}")
                if o.kind != "raise":
                    ctx.violation("C03:malformed-span-accepted", {"kind": "call", "func": "qartod.gross_range_test",
                                                                  "case": {which: bad}, "observed": o.brief()})

    # ---- valid_range_test
    # (a span whose lower bound lies above its upper bound contains nothing: every present value is outside it)
    spans = [(lo, hi) for lo in [None, *GRID] for hi in [None, *GRID] if lo is None or hi is None or lo <= hi or (lo - hi) in (1, 3)]
    incl = list(itertools.product([True, False], [True, False]))
    t0 = np.datetime64("2021-03-01T00:00:00", "s")
    j = 0
    for (lo, hi) in spans:
        for (si, ei) in incl:
            j += 1
            if not ctx.mine(j):
                continue
            # float carriers
            fvals = [*VALUES, float("nan")]
            flog = [None if v != v else v for v in fvals]
            carriers = {
                "f64": lambda: dict(inp=np.array(fvals, dtype=float)),
                "f32": lambda: dict(inp=np.array(fvals, dtype=np.float32)),
                "series": lambda: dict(inp=pd.Series(np.array(fvals, dtype=float))),
                "series-shifted": lambda: dict(inp=pd.Series(np.array(fvals, dtype=float), index=range(5, 5 + len(fvals)))),
                "list+dtype": lambda: dict(inp=list(fvals), dtype=np.float64),
                "tuple-span": lambda: dict(inp=np.array(fvals, dtype=float)),
            }
            for cname, mk in carriers.items():
                kw = mk()
                kw["valid_span"] = [lo, hi] if cname == "tuple-span" else (lo, hi)
                kw["start_inclusive"], kw["end_inclusive"] = si, ei
                o, adm = client.expect(
                    ctx, "C03", "axds.valid_range_test", kw,
                    lambda: models.valid_range(flog, lo, hi, si, ei),
                    logical={"values": flog, "valid_span": [lo, hi], "start_inclusive": si, "end_inclusive": ei,
                             "carrier": cname}, hist="valid_range")
                ctx.count("valid_range.calls")
                fset = "raise" if o.kind == "raise" else "".join(map(str, sorted(set(o.flags.tolist()))))
                cls = ("lo-none" if lo is None else "lo") + ("/hi-none" if hi is None else "/hi") + (
                    "/deg" if lo is not None and lo == hi else "")
                ctx.case(f"vr|{cls}|{si}{ei}|{cname}|{fset}", trivial=fset == "1",
                         sample={"func": "valid_range_test", "valid_span": [lo, hi], "start_inclusive": si,
                                 "end_inclusive": ei, "carrier": cname, "observed": o.brief()})
            # integer dtype (no missing, both bounds present)
            if lo is not None and hi is not None:
                ivals = list(range(-3, 5))
                kw = dict(inp=np.array(ivals, dtype=np.int64), valid_span=(lo, hi), start_inclusive=si, end_inclusive=ei)
                client.expect(ctx, "C03", "axds.valid_range_test", kw,
                              lambda: models.valid_range(ivals, lo, hi, si, ei),
                              logical={"values": ivals, "valid_span": [lo, hi], "si": si, "ei": ei, "carrier": "int64"},
                              hist="valid_range")
                ctx.count("valid_range.calls")
                ctx.case(f"vr|int|{si}{ei}|{'deg' if lo == hi else 'ord'}")
            # datetimes: value v -> t0 + 2*v seconds so that +-1/2 is +-1 s
            tv = [t0 + np.timedelta64(int(2 * v), "s") for v in VALUES]
            tlog = [int(2 * v) for v in VALUES] + [None]
            tarr = np.array([*tv, np.datetime64("NaT")], dtype="datetime64[s]")
            tlo = None if lo is None else t0 + np.timedelta64(2 * lo, "s")
            thi = None if hi is None else t0 + np.timedelta64(2 * hi, "s")
            mlo, mhi = (None if lo is None else 2 * lo), (None if hi is None else 2 * hi)
            dcar = {
                "dt64[s]": lambda: dict(inp=tarr, valid_span=(tlo, thi)),
                "dt64[ns]": lambda: dict(inp=tarr.astype("datetime64[ns]"), valid_span=(tlo, thi)),
                "dt-series": lambda: dict(inp=pd.Series(tarr.astype("datetime64[ns]")), valid_span=(tlo, thi)),
                "dt-isospan": lambda: dict(inp=tarr.astype("datetime64[ns]"),
                                           valid_span=(None if tlo is None else str(tlo), None if thi is None else str(thi))),
            }
            for cname, mk in dcar.items():
                kw = mk()
                kw["start_inclusive"], kw["end_inclusive"] = si, ei
                client.expect(ctx, "C03", "axds.valid_range_test", kw,
                              lambda: models.valid_range(tlog, mlo, mhi, si, ei),
                              logical={"seconds_from_t0": tlog, "valid_span_s": [mlo, mhi], "si": si, "ei": ei,
                                       "carrier": cname}, hist="valid_range")
                ctx.count("valid_range.calls")
                ctx.case(f"vr|time|{'lo-none' if lo is None else 'lo'}|{'hi-none' if hi is None else 'hi'}|{si}{ei}|{cname}")
    ctx.exhaustive.append("valid_range_test: all spans lo<=hi over grid+None x 4 inclusivity settings x 11 carriers")

    # ---- documented defaults: a caller who passes only one (or neither) inclusivity flag gets start closed, end open
    fvals = [*VALUES, float("nan")]
    flog = [None if v != v else v for v in fvals]
    for (lo, hi) in spans:
        j += 1
        if not ctx.mine(j):
            continue
        for extra in ({}, {"start_inclusive": True}, {"start_inclusive": False}, {"end_inclusive": True}, {"end_inclusive": False}):
            si, ei = extra.get("start_inclusive", True), extra.get("end_inclusive", False)
            for cname, inp in (("f64", np.array(fvals, dtype=float)), ("list+dtype", list(fvals))):
                kw = {"inp": inp, "valid_span": (lo, hi), **extra}
                if cname == "list+dtype":
                    kw["dtype"] = np.float64
                client.expect(ctx, "C03", "axds.valid_range_test", kw, lambda: models.valid_range(flog, lo, hi, si, ei),
                              logical={"values": flog, "valid_span": [lo, hi], "flags_passed": extra, "carrier": cname,
                                       "note": "omitted flags take the documented defaults (start inclusive, end exclusive)"},
                              hist="valid_range")
                ctx.count("valid_range.calls")
                ctx.case(f"vr|defaults|{sorted(extra)}|{'lo-none' if lo is None else 'lo'}|{'hi-none' if hi is None else 'hi'}|{cname}")

    # ---- integers beyond 2**53 (float64 cannot tell neighbours apart) and datetimes outside the datetime64[ns] range
    if ctx.shard == 0:
        for b in (1_700_000_000_000_000_000, -(2 ** 62) + 5, 2 ** 53 + 1):
            ivals = [b - 2, b - 1, b, b + 1, b + 2]
            for lo, hi in ((b - 1, b), (b, b), (b - 1, b + 1), (None, b), (b, None)):
                for si, ei in incl:
                    kw = dict(inp=np.array(ivals, dtype=np.int64), valid_span=(lo, hi), start_inclusive=si, end_inclusive=ei)
                    if lo is None or hi is None:
                        continue  # int dtype with a None bound is outside the claimed domain
                    client.expect(ctx, "C03", "axds.valid_range_test", kw, lambda: models.valid_range(ivals, lo, hi, si, ei),
                                  logical={"values": ivals, "valid_span": [lo, hi], "si": si, "ei": ei, "carrier": "int64-large"},
                                  hist="valid_range")
                    ctx.count("valid_range.calls")
                    ctx.case(f"vr|int64-large|{si}{ei}|{'deg' if lo == hi else 'ord'}")
        for unit, start, step, k in (("s", "2262-04-11T23:40:00", 300, 8), ("ms", "2262-01-01T00:00:00", 86400 * 30, 14),
                                     ("D", "1650-01-01", 86400 * 3650, 8), ("s", "2500-01-01T00:00:00", 3600, 6)):
            t0_ = np.datetime64(start, "s")
            secs_ = [int(i * step) for i in range(k)]
            arr_ = (t0_ + np.array(secs_, dtype="timedelta64[s]")).astype(f"datetime64[{unit}]")
            for a_, b_ in ((1, k - 2), (2, 2), (0, k - 1)):
                for si, ei in incl:
                    kw = dict(inp=arr_, valid_span=(arr_[a_], arr_[b_]), start_inclusive=si, end_inclusive=ei)
                    client.expect(ctx, "C03", "axds.valid_range_test", kw,
                                  lambda: models.valid_range(secs_, secs_[a_], secs_[b_], si, ei),
                                  logical={"times": [str(v) for v in arr_], "valid_span": [str(arr_[a_]), str(arr_[b_])], "si": si,
                                           "ei": ei, "carrier": f"datetime64[{unit}] outside the ns range"}, hist="valid_range")
                    ctx.count("valid_range.calls")
                    ctx.case(f"vr|far-dates|{unit}|{si}{ei}")
    # ---- float32 series against bounds float32 cannot represent: the comparison must be made on the widened values
    if ctx.shard == 0:
        import math
        bnds = [0.7, 10.1, -3.3, 2.6, 0.1]
        for lo, hi in [(0.7, 10.1), (-3.3, 2.6), (0.1, 0.7), (10.1, 0.7)]:
            raw = [b + d for b in (lo, hi) for d in (-0.5, 0.0, 0.5)] + [b for b in bnds]
            f32 = np.array(raw, dtype=np.float32)
            vals = [float(v) for v in f32]  # the logical series: exactly what the float32 array holds
            for sus in (None, [min(lo, hi) + 0.05, max(lo, hi) - 0.05], [0.7, 2.6] if (lo, hi) == (0.7, 10.1) else None):
                kw = {"inp": f32, "fail_span": [lo, hi], "suspect_span": sus}
                client.expect(ctx, "C03", "qartod.gross_range_test", kw, lambda: models.gross_range(vals, [lo, hi], sus),
                              logical={"values(float32 widened)": vals, "fail_span": [lo, hi], "suspect_span": sus, "carrier": "f32"},
                              hist="gross_range")
                ctx.count("gross_range.calls")
                ctx.case(f"gr|f32-nonrepresentable-bounds|{lo},{hi}|{sus is None}")
            # (valid_range_test is documented to compare in the data's own dtype -- the span is cast to it -- so it
            #  is not offered bounds the data dtype cannot represent)
        _ = math
    # ---- seeded long series
    rng = ctx.rng
    for k in range(ctx.pick(150, 6000)):
        n = rng.choice([0, 1, 2, 3, 17, 64, 257, 1000])
        vals = [rng.choice([None, rng.randrange(-40, 41) / 4]) if rng.random() < 0.15 else rng.randrange(-40, 41) / 4
                for _ in range(n)]
        a, b, c, d = sorted(rng.randrange(-40, 41) / 4 for _ in range(4))
        fail, sus = [a, d], rng.choice([None, [b, c], [c, b], [a, d], [a, c]])
        if rng.random() < 0.3:
            fail = fail[::-1]
        arr = np.array([np.nan if v is None else v for v in vals], dtype=float)
        kw = {"inp": arr, "fail_span": gen.ptype(rng, fail), "suspect_span": gen.ptype(rng, sus)}
        o, _ = client.expect(ctx, "C03", "qartod.gross_range_test", kw,
                             lambda: models.gross_range(vals, fail, sus),
                             logical={"values": vals, "fail_span": fail, "suspect_span": sus}, hist="gross_range")
        ctx.count("gross_range.calls")
        ctx.case(f"gr|rand|n{min(n, 4)}|{relation(fail, sus)}")
        si, ei = rng.random() < 0.5, rng.random() < 0.5
        lo, hi = rng.choice([None, b]), rng.choice([None, c])
        if n:
            kw = {"inp": arr, "valid_span": (lo, hi), "start_inclusive": si, "end_inclusive": ei}
            client.expect(ctx, "C03", "axds.valid_range_test", kw,
                          lambda: models.valid_range(vals, lo, hi, si, ei),
                          logical={"values": vals, "valid_span": [lo, hi], "si": si, "ei": ei}, hist="valid_range")
            ctx.count("valid_range.calls")
            ctx.case(f"vr|rand|n{min(n, 4)}|{lo is None}{hi is None}{si}{ei}")
