"""C12 — attenuated signal: trailing-window spread vs thresholds (DESIGN §4 C12)."""
from __future__ import annotations

import numpy as np

from vfw import client, gen, models

LEVEL = "exploration"
SHARDS = {"quick": 4, "thorough": 16}
ANCHORS = [("qartod.py", "attenuated_signal_test")]
RULE = ("series of 1..10 points (..24 thorough) on regular, regular-with-outages and irregular whole-second axes, given as ndarray / list / masked array over finite values; test_period absent or equal "
        "to a difference of two sample times (so the window's open left edge falls exactly on a sample) or that +-1 s; "
        "min_obs in {None,1,2,3,n+1}, min_period (regular axes only) incl. non-multiples of the step; thresholds taken "
        "from the spreads actually present x {0.5, 1, 1.5} plus 0, with fail above and below suspect; missing values "
        "inside windows; both check types; unknown check types.  distinct = (check type, windowed?, min setting, axis "
        "kind, missing class, length class, set of flags); trivial = all GOOD.")
ASSUMPTIONS = ["spreads within 1e-9 (relative) of a threshold admit both neighbouring flags (the property's quantifier)",
               "min_period is exercised on regular axes (optionally with outages on fewer than half the steps) with >= 2 points only, where the sampling step is unambiguous",
               "for check_type='range' a window holding a missing value may report UNKNOWN (spread undefined) or the flag of the present values"]
EXHAUSTIVE_ALL = False

CARRIERS = ["dt64ns", "dt64s", "epoch-int", "epoch-list", "dtindex", "series"]


def spreads(x, t, period, kind):
    out = set()
    n = len(x)
    for i in range(n):
        idx = range(n) if not period else [j for j in range(n) if t[i] - period < t[j] <= t[i]]
        w = [x[j] for j in idx if x[j] is not None]
        if not w:
            continue
        if kind == "range":
            out.add(max(w) - min(w))
        else:
            s = models._sstdev(w) if period else models._pstdev(w)
            if s is not None:
                out.add(s)
    return sorted(out)


def run(ctx) -> None:
    rng = ctx.rng
    ctx.require("attenuated.calls", 1000)
    ctx.require("attenuated.windowed_calls", 300)
    ctx.require("attenuated.window_edge_on_sample", 100)
    nmax = ctx.pick(10, 24)
    for it in range(ctx.pick(2600, 9000)):
        n = rng.choice([1, 2, 3, 4, 5, 6, 8, nmax, nmax, 60, ctx.pick(150, 400)])
        regular = rng.random() < 0.5
        D = rng.choice([1, 60, 900])
        t = gen.regular(n, D) if regular else gen.irregular(rng, n, steps=(1, 2, 3, 60, 61, 900, 3600))
        gappy = False
        if regular and n >= 4 and rng.random() < 0.4:
            # regularly sampled with a few outages: the sampling step is still D (fewer than half the steps are gaps)
            gappy = True
            gaps = set(rng.sample(range(1, n), max(1, (n - 1) // 3)))
            t, cur = [], gen.T0
            for k in range(n):
                if k:
                    cur += D * (rng.choice([2, 5, 20]) if k in gaps else 1)
                t.append(cur)
        x = gen.series(rng, n, pmiss=rng.choice([0, 0.15, 0.4]))
        scale = rng.choice([1.0, 1.0, 1.0, 2.0 ** -30, 2.0 ** -40, 2.0 ** 20])  # exact rescaling of data and thresholds alike
        x = [None if v is None else v * scale for v in x]
        kind = rng.choice(["std", "range"])
        windowed = rng.random() < 0.7 and n >= 1
        period = min_obs = min_period = None
        msetting = "none"
        if windowed:
            if n >= 2:
                i, j = sorted(rng.sample(range(n), 2))
                period = (t[j] - t[i]) + rng.choice([0, 0, 0, 1, -1, 0.5, -0.5, 0.25])
                if period <= 0:
                    period = t[j] - t[i]
                if period == t[j] - t[i]:
                    ctx.count("attenuated.window_edge_on_sample")
            else:
                period = 60
            r = rng.random()
            if r < 0.4:
                min_obs = rng.choice([1, 2, 3, n + 1])
                msetting = f"min_obs{'>n' if min_obs > n else min_obs}"
            elif r < 0.65 and regular and n >= 2:
                min_period = rng.choice([D, 2 * D, int(2.5 * D) or 1, 3 * D, period])
                msetting = "min_period"
        sp = spreads(x, t, period, kind)
        pool = [0, 0.5 * scale, 10.0 * scale, *(s * f for s in sp for f in (0.5, 1.0, 1.5))]
        pool = [p for p in pool if p == 0 or p > 1e-6 * scale]
        st, ft = rng.choice(pool), rng.choice(pool)
        if rng.random() < 0.7 and ft > st:
            st, ft = ft, st
        carrier = rng.choice(CARRIERS)
        r = rng.random()
        if r < 0.1 and all(v is None or float(np.float32(v)) == v for v in x):
            inp = gen.arr(x).astype(np.float32)
        elif r < 0.65:
            inp = gen.arr(x)
        elif r < 0.8:
            inp = list(x)
        else:  # masked array hiding a finite value that would change the spread if it were read

            inp = np.ma.MaskedArray(np.array([rng.choice([50.0, -50.0, 0.0]) if v is None else v for v in x], dtype=float),
                                    mask=[v is None for v in x])
        kw = {"inp": inp, "tinp": gen.times(t, carrier),
              "suspect_threshold": gen.ptype(rng, st), "fail_threshold": gen.ptype(rng, ft), "check_type": kind}
        if period is not None:
            kw["test_period"] = gen.ptype(rng, period)
        if min_obs is not None:
            kw["min_obs"] = rng.choice([min_obs, np.int64(min_obs)])
        if min_period is not None:
            kw["min_period"] = gen.ptype(rng, min_period)
        o, _ = client.expect(ctx, "C12", "qartod.attenuated_signal_test", kw,
                             lambda: models.attenuated(x, t, st, ft, period, min_obs, min_period, kind),
                             logical={"x": x, "t": t, "suspect_threshold": st, "fail_threshold": ft,
                                      "test_period": period, "min_obs": min_obs, "min_period": min_period,
                                      "check_type": kind, "carrier": carrier}, hist=f"attenuated.{kind}")
        ctx.count("attenuated.calls")
        if period:
            ctx.count("attenuated.windowed_calls")
        fs = gen.flagset(o)
        ctx.case(f"{kind}|{'win' if period else 'whole'}|{msetting}|{'gappy' if gappy else 'reg' if regular else 'irr'}|m{gen.mclass(x)}|"
                 f"n{gen.nclass(n)}|{'f>s' if ft > st else 'f<=s'}|{fs}", trivial=fs == "1",
                 sample={"x": x, "t": t, "suspect_threshold": st, "fail_threshold": ft, "test_period": period,
                         "min_obs": min_obs, "min_period": min_period, "check_type": kind, "observed": o.brief()})
    if ctx.shard == 0:
        n = 20001
        x = [float((k * 5) % 3) for k in range(n)]
        for b in (4096, 8192, 16384):
            for k in range(b - 4, b + 5):
                x[k] = 7.0
            x[b + 9] = None
        t = gen.regular(n, 60)
        for kind in ("std", "range"):
            kw = {"inp": gen.arr(x), "tinp": gen.times(t), "suspect_threshold": 0.9, "fail_threshold": 0.3, "test_period": 300,
                  "min_obs": 3, "check_type": kind}
            client.expect(ctx, "C12", "qartod.attenuated_signal_test", kw,
                          lambda: models.attenuated(x, t, 0.9, 0.3, 300, 3, None, kind),
                          logical={"x": "20001 points, flat stretches around 4096/8192/16384", "check_type": kind}, hist=f"attenuated.{kind}")
            ctx.count("attenuated.calls")
            ctx.case(f"huge|{kind}")
    if ctx.shard == 1 % ctx.nshards:
        # a long record sampled every 60 s in which one stamp was logged late (the mean step still equals the median step)
        n = 1300
        t = gen.regular(n, 60)
        for late in (400, 900):
            t[late] += 20
            t[late + 300] -= 0  # (no compensation needed: the span is unchanged)
        x = [float((k * 7) % 5) * 0.25 for k in range(n)]
        for b in (395, 398, 401, 404, 899, 902):
            x[b] = 9.0
        x[410] = None
        for kind in ("std", "range"):
            for per in (130, 180, 190, 250):
                extra, mo = rng.choice([({"min_obs": 2}, 2), ({}, None)])
                kw = {"inp": gen.arr(x), "tinp": gen.times(t), "suspect_threshold": 2.0, "fail_threshold": 0.6, "test_period": per,
                      "check_type": kind, **extra}
                client.expect(ctx, "C12", "qartod.attenuated_signal_test", kw,
                              lambda: models.attenuated(x, t, 2.0, 0.6, per, mo, None, kind),
                              logical={"x": "1300 points", "t": "60 s sampling, stamps 400 and 900 logged 20 s late", "test_period": per,
                                       "check_type": kind, **extra}, hist=f"attenuated.{kind}")
                ctx.count("attenuated.calls")
                ctx.case(f"long-displaced-stamp|{kind}|{per}|{bool(extra)}")
    # history: the sampling step belongs to the axis of THIS call (regular axis, then a burst-sampled axis with one
    # outage that has the same length and the same first and last instant, and the other way round)
    for _ in range(ctx.pick(60, 400)):
        n = rng.choice([7, 9, 11, 13])
        D = rng.choice([10, 20, 60])
        ta = gen.regular(n, D)
        d = rng.choice([1, 2])
        tb, cur = [], ta[0]
        for k in range(n):
            tb.append(cur)
            cur += d
        tb[-1] = ta[-1]  # one outage before the last sample: same ends, same length, sampling step d
        xs = gen.series(rng, n, pmiss=0.1)
        kind = rng.choice(["std", "range"])
        mp = rng.choice([2 * D, 3 * D, 25])
        per = rng.choice([4 * D, 6 * D])
        pair = [(ta, "regular"), (tb, "burst+outage")]
        if rng.random() < 0.5:
            pair.reverse()
        for tt, axis in pair:
            kw = {"inp": gen.arr(xs), "tinp": gen.times(tt), "suspect_threshold": 1.0, "fail_threshold": 0.25,
                  "test_period": per, "min_period": mp, "check_type": kind}
            client.expect(ctx, "C12", "qartod.attenuated_signal_test", kw,
                          lambda: models.attenuated(xs, tt, 1.0, 0.25, per, None, mp, kind),
                          logical={"x": xs, "t": tt, "test_period": per, "min_period": mp, "check_type": kind, "axis": axis,
                                   "note": "second of two calls on axes with equal length and end points" if tt is pair[1][0] else "first call"},
                          hist=f"attenuated.{kind}")
            ctx.count("attenuated.calls")
            ctx.count("attenuated.sampling_step_history_calls")
            ctx.case(f"history|{kind}|{axis}|{'second' if tt is pair[1][0] else 'first'}")
    # a small wiggle riding on a large offset (pressure in Pa, counts, epoch-like magnitudes): the spread is that of the
    # wiggle, for the whole series and in windows, as standard deviation and as range
    for _ in range(ctx.pick(60, 300)):
        n = rng.choice([4, 9, 24, 60])
        off = rng.choice([1e7, 2.0 ** 24, 101325.0, 2.0 ** 30, -3e6])
        w_ = rng.choice([2.0 ** -7, 2.0 ** -5, 0.25])
        xs = [off + (w_ if k % 2 else -w_) * rng.choice([1, 1, 0.5]) for k in range(n)]
        kind = rng.choice(["std", "range"])
        period = rng.choice([None, None, 180])
        tt = gen.regular(n, 60)
        st, ft = rng.choice([(4 * w_, w_ / 8), (w_ / 4, w_ / 16), (8 * w_, 3 * w_)])
        kw = {"inp": gen.arr(xs), "tinp": gen.times(tt), "suspect_threshold": st, "fail_threshold": ft, "check_type": kind}
        if period:
            kw.update(test_period=period, min_obs=2)
        client.expect(ctx, "C12", "qartod.attenuated_signal_test", kw,
                      lambda: models.attenuated(xs, tt, st, ft, period, 2 if period else None, None, kind),
                      logical={"x": xs if n <= 24 else f"{n} values {off} +- {w_}", "t": "regular 60 s", "suspect_threshold": st, "fail_threshold": ft,
                               "test_period": period, "check_type": kind, "note": "small wiggle on a large offset"}, hist=f"attenuated.{kind}")
        ctx.count("attenuated.calls")
        ctx.count("attenuated.large_offset_calls")
        ctx.case(f"large-offset|{kind}|{'window' if period else 'whole'}|{off}")
    # history: live buffers (the same ndarray / Series objects) refreshed in place between two calls with the same window
    # parameters -- each call grades what the buffers hold at that moment
    import pandas as pd  # noqa: PLC0415

    for _ in range(ctx.pick(80, 400)):
        n = rng.choice([5, 8, 12])
        tt = gen.regular(n, 60)
        kind = rng.choice(["std", "range"])
        per = rng.choice([120, 180, 300])
        extra = rng.choice([{"min_obs": 2}, {"min_period": 120}, {}])
        xs1 = gen.series(rng, n, pmiss=0.0, kind="noise")
        xs2 = rng.choice([[4.0] * n, [v + (0.0 if k % 2 else 5.0) for k, v in enumerate(xs1)], xs1[::-1]])
        holder = rng.choice(["ndarray", "series"])
        buf = np.array(xs1, dtype=float) if holder == "ndarray" else pd.Series(np.array(xs1, dtype=float))
        tbuf = gen.times(tt) if holder == "ndarray" else pd.Series(gen.times(tt))
        kw = {"inp": buf, "tinp": tbuf, "suspect_threshold": 1.0, "fail_threshold": 0.25, "test_period": per, "check_type": kind, **extra}
        for step, xs_ in (("first", xs1), ("after in-place refresh", xs2)):
            if step != "first":
                if holder == "ndarray":
                    buf[:] = xs_
                else:
                    buf.iloc[:] = xs_
            client.expect(ctx, "C12", "qartod.attenuated_signal_test", kw,
                          lambda: models.attenuated(xs_, tt, 1.0, 0.25, per, extra.get("min_obs"), extra.get("min_period"), kind),
                          logical={"x": xs_, "t": "regular 60 s", "test_period": per, "check_type": kind, **extra, "holder": holder,
                                   "note": step + " (same array objects in both calls)"}, hist=f"attenuated.{kind}")
            ctx.count("attenuated.calls")
            ctx.count("attenuated.live_buffer_history_calls")
        ctx.case(f"live-buffer|{holder}|{kind}|{sorted(extra)}")
    # whole-number observations in every integer dtype (raw counts): the spread of the series is a number, whatever the
    # storage width (max - min of int8 data may exceed 127, a uint8 difference never wraps)
    for _ in range(ctx.pick(80, 400)):
        n = rng.choice([2, 3, 5, 9, 20])
        lo_, hi_ = rng.choice([(-100, 100), (0, 250), (-30000, 30000), (0, 60000), (0, 4_000_000_000), (-5, 5)])
        xs = [rng.randrange(lo_, hi_ + 1) for _ in range(n)]
        if rng.random() < 0.5:
            xs[0], xs[-1] = lo_, hi_
        fx = [float(v) for v in xs]
        kind = rng.choice(["std", "range"])
        spread_ = max(xs) - min(xs)
        st, ft = rng.choice([(spread_ + 1, spread_ / 2 + 0.5), (spread_ * 2 + 1, spread_ + 0.5), (1.0, 0.25)])
        period = rng.choice([None, None, 3 * 60])
        tt = gen.regular(n, 60)
        for cname, arr_ in gen.int_carriers(xs):
            kw = {"inp": arr_, "tinp": gen.times(tt), "suspect_threshold": st, "fail_threshold": ft, "check_type": kind}
            if period:
                kw["test_period"] = period
            client.expect(ctx, "C12", "qartod.attenuated_signal_test", kw,
                          lambda: models.attenuated(fx, tt, st, ft, period, None, None, kind),
                          logical={"x": xs, "t": "regular 60 s", "suspect_threshold": st, "fail_threshold": ft, "test_period": period,
                                   "check_type": kind, "carrier": cname}, hist=f"attenuated.{kind}")
            ctx.count("attenuated.calls")
            ctx.count("attenuated.integer_dtype_calls")
            ctx.case(f"int-dtype|{cname}|{kind}|{'window' if period else 'whole'}")
    if ctx.shard == 0:
        for bad in ("STD", "stdev", "", "ptp", None, 1):
            kw = {"inp": gen.arr([1.0, 2.0, 3.0]), "tinp": gen.times(gen.regular(3, 60)), "suspect_threshold": 1,
                  "fail_threshold": 0.5, "check_type": bad}
            o = client.invoke("qartod.attenuated_signal_test", kw)
            ctx.count("attenuated.calls")
            ctx.case(f"badtype|{bad!r}")
            if not (o.kind == "raise" and isinstance(o.exc, ValueError)):
                ctx.violation("C12:unknown-check_type-not-rejected",
                              {"kind": "call", "func": "qartod.attenuated_signal_test", "case": {"check_type": bad},
                               "observed": o.brief()})
