"""C10 — rate tests: change from the previous point per elapsed second (DESIGN §4 C10)."""
from __future__ import annotations

import itertools
from fractions import Fraction

import numpy as np

from vfw import client, gen, models

LEVEL = "exploration"
SHARDS = {"quick": 4, "thorough": 16}
ANCHORS = [("qartod.py", "rate_of_change_test"), ("argo.py", "speed_test"), ("utils.py", "great_circle_distance"),
           ("utils.py", "mapdates")]
RULE = ("rate_of_change_test: all missing placements for n<=5 on irregular whole-second axes (1 s .. 200000 s steps) in "
        "6 time carriers, series built so that |dx|/dt lies exactly on, just above and just below the (dyadic) "
        "threshold, seeded longer series; speed_test: tracks with asymmetric lon/lat steps (a lat/lon swap changes "
        "the distance by orders of magnitude), antimeridian-adjacent and stationary tracks (speed exactly 0 = "
        "threshold 0), all 4^n coordinate-missing placements for n<=3 (4 thorough), thresholds around the speeds "
        "present; length-mismatch triples for both.  distinct = (function, time carrier, length class, missing "
        "class, threshold class, set of flags); trivial = all GOOD.")
ASSUMPTIONS = ["time axes strictly increasing with whole-second steps (the property's quantifier)",
               "a rate is the float64 quotient |dx| / seconds (dx exact for dyadic values); a threshold equal to that quotient does not flag",
               "geographiclib.Geodesic.WGS84.Inverse called per pair is the distance ground truth; 1e-9 guard band"]
EXHAUSTIVE_ALL = False

CARRIERS = ["dt64ns", "dt64s", "epoch-int", "epoch-float", "epoch-list", "dtindex", "pydatetime", "series", "epoch-int32", "epoch-uint32"]


def roc_case(ctx, x, t, thr, carrier, tag) -> None:
    kw = {"inp": gen.carried(ctx.rng, x, poisons=(0.0, 1e6, -1e6)), "tinp": gen.times(t, carrier), "threshold": gen.ptype(ctx.rng, thr)}
    o, _ = client.expect(ctx, "C10", "qartod.rate_of_change_test", kw,
                         lambda: models.rate_of_change(x, t, thr),
                         logical={"x": x, "t": t, "threshold": thr, "time_carrier": carrier}, hist="rate_of_change")
    ctx.count("roc.calls")
    fs = gen.flagset(o)
    ctx.case(f"roc|{tag}|{carrier}|n{gen.nclass(len(x))}|m{gen.mclass(x)}|{fs}", trivial=fs == "1",
             sample={"func": "rate_of_change_test", "x": x, "t": t, "threshold": thr, "carrier": carrier,
                     "observed": o.brief()})


def speed_case(ctx, lon, lat, t, st, ft, carrier, tag) -> None:
    kw = {"lon": gen.carried(ctx.rng, lon, poisons=(0.0, 120.0, -60.0)), "lat": gen.carried(ctx.rng, lat, poisons=(0.0, 80.0, -45.0)),
          "tinp": gen.times(t, carrier),
          "suspect_threshold": gen.ptype(ctx.rng, st), "fail_threshold": gen.ptype(ctx.rng, ft)}
    o, _ = client.expect(ctx, "C10", "argo.speed_test", kw,
                         lambda: models.speed(lon, lat, t, st, ft),
                         logical={"lon": lon, "lat": lat, "t": t, "suspect_threshold": st, "fail_threshold": ft,
                                  "time_carrier": carrier}, hist="speed")
    ctx.count("speed.calls")
    if ctx.rng.random() < 0.3:
        # history: the same track judged again right away (other thresholds or the same ones): same answer as a first call
        st2, ft2 = (st, ft) if ctx.rng.random() < 0.5 else (ft, st)
        kw2 = {**kw, "suspect_threshold": st2, "fail_threshold": ft2}
        client.expect(ctx, "C10", "argo.speed_test", kw2, lambda: models.speed(lon, lat, t, st2, ft2),
                      logical={"lon": lon, "lat": lat, "t": t, "suspect_threshold": st2, "fail_threshold": ft2, "time_carrier": carrier,
                               "note": "second call on the same track objects"}, hist="speed")
        ctx.count("speed.calls")
        ctx.count("speed.repeated_track_calls")
    fs = gen.flagset(o)
    mc = gen.mclass([None if (a is None or b is None) else 0 for a, b in zip(lon, lat)])
    ctx.case(f"speed|{tag}|{carrier}|n{gen.nclass(len(lon))}|m{mc}|{fs}", trivial=fs in ("12", "2"),
             sample={"func": "speed_test", "lon": lon, "lat": lat, "t": t, "suspect_threshold": st,
                     "fail_threshold": ft, "observed": o.brief()})


def run(ctx) -> None:
    rng = ctx.rng
    ctx.require("roc.calls", 500)
    ctx.require("speed.calls", 300)
    ctx.require("roc.exactly_on_threshold", 50)
    ctx.require("mismatch.cases", 10)
    # -- rate of change: all missing placements, on-threshold construction
    i = 0
    for n in range(1, 6):
        for pl in itertools.product((0, 1), repeat=n):
            i += 1
            if not ctx.mine(i):
                continue
            for rep in range(ctx.pick(3, 12)):
                t = gen.irregular(rng, n)
                thr = rng.choice([0, 0.25, 0.5, 2, 0.001953125])
                x, prev = [], gen.dyadic(rng)
                for k in range(n):
                    if k == 0:
                        v = prev
                    else:
                        dtk = t[k] - t[k - 1]
                        mode = rng.choice(["on", "above", "below", "free"])
                        sign = rng.choice([1, -1])
                        if mode == "on":
                            v = prev + sign * thr * dtk
                            ctx.count("roc.exactly_on_threshold")
                        elif mode == "above":
                            v = prev + sign * (thr * dtk + 0.25)
                        elif mode == "below":
                            v = prev + sign * max(thr * dtk - 0.25, 0)
                        else:
                            v = gen.dyadic(rng)
                    x.append(v)
                    prev = v
                x = [None if pl[k] else x[k] for k in range(n)]
                roc_case(ctx, x, t, thr, rng.choice(CARRIERS), "enum")
    ctx.exhaustive.append("rate_of_change_test: all 2^n missing placements for n<=5")
    for _ in range(ctx.pick(1200, 8000)):
        n = rng.choice([2, 3, 6, 9, 30, 30, 120, ctx.pick(400, 2000)])
        x = gen.series(rng, n)
        t = (gen.irregular(rng, n, steps=(1, 2, 3, 7, 49, 60, 61, 98, 103, 107, 161, 187, 900, 3600, 86400, 200000))
             if rng.random() < 0.7 else gen.regular(n, rng.choice([1, 49, 60, 103, 3600])))
        rates = sorted({abs(Fraction(x[k]) - Fraction(x[k - 1])) / (t[k] - t[k - 1]) for k in range(1, n)
                        if x[k] is not None and x[k - 1] is not None})
        # thresholds equal to the rates present as float64 quotients (the statement's "divided by", in float64),
        # representable or not
        pool = [abs(x[k] - x[k - 1]) / float(t[k] - t[k - 1]) for k in range(1, n)
                if x[k] is not None and x[k - 1] is not None] + [0, 0.125, 1, 1e-4]
        ctx.count("roc.threshold_is_a_rate_present")
        roc_case(ctx, x, t, rng.choice(pool), rng.choice(CARRIERS), "rand")

    # -- axes that look regular to a shortcut (total span = (n-1) x first step, first step = last step, ...) but are not
    for _ in range(ctx.pick(300, 1500)):
        n = rng.choice([4, 5, 6, 9, 12])
        d = rng.choice([10, 60, 3600])
        steps = [d]
        while len(steps) < n - 1:
            e = rng.choice([d // 2, d // 5, d // 10])
            steps += [d - e, d + e] if len(steps) + 2 <= n - 1 else [d]
        tail = steps[1:]
        rng.shuffle(tail)
        steps = [d, *tail]
        t = [gen.T0]
        for st_ in steps:
            t.append(t[-1] + st_)
        thr = rng.choice([0.125, 0.5, 1.0])
        x = [gen.dyadic(rng)]
        for k in range(1, n):
            # the change is sized against the first step: on the other side of the threshold for this step's own length
            x.append(x[-1] + rng.choice([1, -1]) * thr * d * rng.choice([1.0, 0.75, 1.25]))
        roc_case(ctx, x, t, thr, rng.choice(CARRIERS), "pseudo-regular")
        ctx.count("roc.pseudo_regular_axes")
    # -- long records: a deployment resumed after a gap of more than 2^24 s (194 days), sampled every 1, 3 or 5 s afterwards;
    #    the elapsed seconds of each step are exact whatever the distance from the first sample
    for _ in range(ctx.pick(60, 300)):
        n = rng.choice([6, 9, 14])
        gap = rng.choice([2 ** 24 + 1, 2 ** 25 + 3, 3 * 10 ** 7 + 1, 2 ** 27 + 5])
        t = [gen.T0, gen.T0 + rng.choice([1, 60])]
        t.append(t[-1] + gap)
        while len(t) < n:
            t.append(t[-1] + rng.choice([1, 3, 5, 7]))
        thr = rng.choice([0.125, 0.5, 1.0])
        x = [gen.dyadic(rng)]
        for k in range(1, n):
            dtk = t[k] - t[k - 1]
            x.append(x[-1] + rng.choice([1, -1]) * thr * (dtk if dtk < 100 else 1) * rng.choice([1.0, 0.75, 1.25, 0.5, 1.5]))
        roc_case(ctx, x, t, thr, rng.choice(CARRIERS), "long-record")
        lonr = [10.0 + 0.0001 * k for k in range(n)]
        latr = [50.0] * n
        sp_ = [models.geodist(latr[k - 1], lonr[k - 1], latr[k], lonr[k]) / (t[k] - t[k - 1]) for k in range(1, n)]
        st_ = rng.choice(sorted(sp_)[1:]) * rng.choice([0.9, 1.1])
        speed_case(ctx, lonr, latr, t, st_, st_ * 3, rng.choice(CARRIERS), "long-record")
        ctx.count("roc.long_record_cases")
    # -- whole-number observations in every integer dtype (raw counts): a decrease is a negative change, not a wrap-around
    for _ in range(ctx.pick(120, 600)):
        n = rng.choice([3, 5, 8, 20])
        hi = rng.choice([200, 60000, 3_000_000_000])
        x = [rng.randrange(0, hi) for _ in range(n)]
        if rng.random() < 0.5:
            x = sorted(x, reverse=True)
        t = gen.regular(n, rng.choice([1, 60]))
        rates = [abs(x[k] - x[k - 1]) / float(t[k] - t[k - 1]) for k in range(1, n)]
        thr = rng.choice([max(rates) + 1, sorted(rates)[len(rates) // 2], 0.5])
        for cname, arr_ in gen.int_carriers(x):
            kw = {"inp": arr_, "tinp": gen.times(t), "threshold": thr}
            client.expect(ctx, "C10", "qartod.rate_of_change_test", kw, lambda: models.rate_of_change([float(v) for v in x], t, thr),
                          logical={"x": x, "t": t, "threshold": thr, "carrier": cname}, hist="rate_of_change")
            ctx.count("roc.calls")
            ctx.count("roc.integer_dtype_calls")
            ctx.case(f"roc|int-dtype|{cname}|n{gen.nclass(n)}")

    # -- speed
    def track(n):
        kind = rng.choice(["asym", "antimeridian", "stationary", "polar", "random"])
        lon, lat = [], []
        lo, la = rng.choice([-170.0, -10.5, 0.0, 45.25, 179.5]), rng.choice([-60.0, -0.5, 10.0, 59.75])
        for k in range(n):
            if kind == "asym":
                lo, la = lo + rng.choice([0.0, 0.001, 1.5]), la + rng.choice([0.0, 0.0001])
            elif kind == "antimeridian":
                lo = rng.choice([179.9, -179.9, 179.99, -180.0, 180.0])
                la = la + rng.choice([0, 0.01])
            elif kind == "stationary":
                pass
            elif kind == "polar":
                la = rng.choice([89.0, 89.9, -89.5])
                lo = rng.choice([-120.0, 0.0, 60.0, 179.0])
            else:
                lo, la = rng.uniform(-179, 179), rng.uniform(-85, 85)
            lon.append(max(-180.0, min(180.0, lo)))
            lat.append(max(-90.0, min(90.0, la)))
        return kind, lon, lat

    def speeds(lon, lat, t):
        out = []
        for k in range(1, len(lon)):
            if None not in (lon[k], lat[k], lon[k - 1], lat[k - 1]):
                out.append(models.geodist(lat[k - 1], lon[k - 1], lat[k], lon[k]) / (t[k] - t[k - 1]))
        return out

    j = 0
    for n in range(1, ctx.pick(4, 5)):
        for pl in itertools.product((0, 1, 2, 3), repeat=n):  # 0 both present,1 lon missing,2 lat missing,3 both
            j += 1
            if not ctx.mine(j):
                continue
            kind, lon, lat = track(n)
            t = gen.irregular(rng, n, steps=(1, 5, 60, 3600, 86400))
            lon = [None if pl[k] in (1, 3) else lon[k] for k in range(n)]
            lat = [None if pl[k] in (2, 3) else lat[k] for k in range(n)]
            sp = speeds(lon, lat, t)
            pool = [0, 0.5, 3, 100, 1e5, *(s * f for s in sp for f in (0.5, 1.0, 1.5))]
            st, ft = sorted((rng.choice(pool), rng.choice(pool)))
            if rng.random() < 0.15:
                st, ft = ft, st
            speed_case(ctx, lon, lat, t, st, ft, rng.choice(CARRIERS), f"enum-{kind}")
    ctx.exhaustive.append("speed_test: all 4^n lon/lat missing placements for n<=3 (4 thorough)")
    for _ in range(ctx.pick(500, 4000)):
        n = rng.choice([2, 3, 5, 8, 20, 20, 101])
        kind, lon, lat = track(n)
        for k in range(n):
            r = rng.random()
            if r < 0.05:
                lon[k] = None
            elif r < 0.1:
                lat[k] = None
            elif r < 0.15:
                lon[k] = lat[k] = None
        t = gen.irregular(rng, n, steps=(1, 5, 60, 3600, 86400))
        sp = speeds(lon, lat, t)
        pool = [0, 0.5, 3, 100, 1e5, *(s * f for s in sp for f in (0.5, 0.999, 1.0, 1.0, 1.001, 1.5))]
        st, ft = sorted((rng.choice(pool), rng.choice(pool)))
        if kind == "stationary" and rng.random() < 0.5:
            st = ft = 0  # speed exactly on the threshold: must stay GOOD
            ctx.count("speed.exactly_on_threshold")
        speed_case(ctx, lon, lat, t, st, ft, rng.choice(CARRIERS), f"rand-{kind}")

    # -- very long series / tracks (chunk boundaries of any blocked variant)
    if ctx.shard == 0:
        n = 70001
        t = gen.regular(n, 60)
        x = [5.0 + 0.25 * ((k * 3) % 4) for k in range(n)]
        for b in (4096, 16384, 32768, 65536):
            x[b] += 40.0
            x[b + 2] = None
        roc_case(ctx, x, t, 0.1, "dt64ns", "huge")
        n = ctx.pick(17001, 40001)
        t = gen.regular(n, 3600)
        for base_lon in (-71.05, 150.25):
            lon = [base_lon + 0.001 * (k % 7) for k in range(n)]
            lat = [41.0 + 0.0005 * (k % 5) for k in range(n)]
            for b in (4096, 8192, 16384, 32768):
                if b + 1 < n:
                    lon[b] += 0.9  # a real jump exactly at / next to a power of two
                    lat[b + 1] = None
            speed_case(ctx, lon, lat, t, 1.0, 20.0, "dt64ns", "huge")
    # -- mismatched lengths are rejected with ValueError
    if ctx.shard == 0:
        for n, m in [(3, 2), (2, 3), (5, 2), (2, 5), (4, 3), (3, 4), (1, 2), (2, 1), (6, 1), (3, 0), (0, 3)]:
            for carrier in ("dt64ns", "epoch-int"):
                x = [float(k % 3) for k in range(n)]
                kw = {"inp": gen.arr(x), "tinp": gen.times(gen.regular(m, 60), carrier), "threshold": 0.5}
                o = client.invoke("qartod.rate_of_change_test", kw)
                ctx.count("mismatch.cases")
                ctx.case(f"roc|mismatch|{n}v{m}|{carrier}")
                if not (o.kind == "raise" and isinstance(o.exc, ValueError)):
                    ctx.violation(f"C10:length-mismatch-not-rejected:rate_of_change_test",
                                  {"kind": "call", "func": "qartod.rate_of_change_test",
                                   "case": {"len_inp": n, "len_tinp": m, "carrier": carrier},
                                   "kwargs": kw, "observed": o.brief()})
                lon = [10.0 + k for k in range(n)]
                for which in ("lat", "tinp"):
                    kw = {"lon": gen.arr(lon), "lat": gen.arr([5.0] * (m if which == "lat" else n)),
                          "tinp": gen.times(gen.regular(m if which == "tinp" else n, 60), carrier),
                          "suspect_threshold": 1, "fail_threshold": 2}
                    o = client.invoke("argo.speed_test", kw)
                    ctx.count("mismatch.cases")
                    ctx.case(f"speed|mismatch|{which}|{n}v{m}|{carrier}")
                    if not (o.kind == "raise" and isinstance(o.exc, ValueError)):
                        ctx.violation("C10:length-mismatch-not-rejected:speed_test",
                                      {"kind": "call", "func": "argo.speed_test",
                                       "case": {"n": n, "m": m, "which": which, "carrier": carrier},
                                       "kwargs": kw, "observed": o.brief()})
