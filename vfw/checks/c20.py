"""C20 — generated configs evaluate their limit expressions correctly and statelessly (DESIGN §4 C20)."""
from __future__ import annotations

import datetime as dt
import math
from fractions import Fraction

import numpy as np

from vfw import core, plumbing as P

LEVEL = "exploration"
SHARDS = {"quick": 4, "thorough": 16}
ANCHORS = [("config_creator/fx_parser.py", "eval_fx"), ("config_creator/fx_parser.py", "evaluate_stack"),
           ("config_creator/fx_parser.py", "BNF"), ("config_creator/config_creator.py", "QcVariableConfig._validate_fx"),
           ("config_creator/config_creator.py", "QcConfigCreator._get_stats"),
           ("config_creator/config_creator.py", "QcConfigCreator._get_subset")]
RULE = ("expressions from the grammar expr := term ((+|-) term)*, term := factor ((*|/) factor)*, factor := (-|+)* atom, "
        "atom := number | min | max | mean | std | ( expr ) to depth 5 (7 thorough) with unary-minus chains and "
        "redundant parentheses, dyadic operands, spaced and unspaced; evaluated inside random histories that interleave "
        "parse failures ('1 +', '( 1', '1 + ( 2 *'), invalid identifiers ('foo + 1', which parse and fail in evaluation "
        "leaving tokens behind) and validator rejections; value compared with an exact-rational recursive-descent "
        "evaluator (the deciding oracle); a hook on fx_parser.exprStack / evaluate_stack records tokens pushed vs consumed "
        "(observation only).  Validator: token strings over numbers / statistics / operators / "
        "parentheses / junk, accepted iff every token is allowed.  create_config: synthetic constant-in-time "
        "climatologies (12 mid-month steps, random lat/lon grids with NaN land cells, 2-D and 3-D) written as NetCDF-3, "
        "random boxes with >=1 data cell, 1..364-day ranges incl. year crossing; spans compared with expressions on "
        "min/max/mean/population std of the in-box cells.  distinct = (part, expression depth / shape, history "
        "predecessor kind, grid kind); trivial = a bare number.")
ASSUMPTIONS = ["tokens Python's float() accepts but a plain reader would not (nan, inf, 1_0, fullwidth digits) and empty tokens "
               "from double spaces are generated but not judged by the validator oracle",
               "bounding-box edges are mostly kept off the grid coordinates ('inside' is then unambiguous); for edges exactly on "
               "grid coordinates both the closed and the open box are admissible (same reading on all four sides); boxes whose "
               "in-box cells sum to exactly 0 are the recorded finding D20 (targeted sub-check)",
               "NetCDF-3 via scipy only (no h5py)"]
EXHAUSTIVE_ALL = False

STATS_POOL = [0.0, 0.5, 1.0, 2.0, 3.25, -1.5, 10.0, 0.125, 7.0]


# --------------------------------------------------------------------------- expression grammar


def gen_expr(rng, depth):
    """returns (token list, exact evaluator closure taking stats->Fraction, shape description)"""
    if depth <= 0 or rng.random() < 0.25:
        if rng.random() < 0.5:
            s = rng.choice(["min", "max", "mean", "std"])
            return [s], ("stat", s)
        v = rng.choice(["0", "1", "2", "3", "10", "0.5", "0.25", "0.125", "2.75", "100", "4.", "1e2", "5E-1"])
        return [v], ("num", v)
    r = rng.random()
    if r < 0.2:
        t, a = gen_expr(rng, depth - 1)
        return ["(", *t, ")"], ("par", a)
    if r < 0.35:
        t, a = gen_expr(rng, depth - 1)
        k = rng.choice([1, 1, 2, 3])
        sign = rng.choice(["-", "-", "+"])
        if a[0] in ("bin",):
            t, a = ["(", *t, ")"], ("par", a)
        return [*([sign] * k), *t], ("un", sign, k, a)
    op = rng.choice(["+", "-", "*", "/"])
    lt, la = gen_expr(rng, depth - 1)
    rt, ra = gen_expr(rng, depth - 1)
    # parenthesise operands where ordinary precedence / left associativity would otherwise regroup them
    def need_par(ast, side):
        if ast[0] != "bin":
            return False
        lo = ast[1] in "+-"
        if op in "*/":
            return lo or side == "r"
        return side == "r" and True
    if need_par(la, "l") or (la[0] == "bin" and rng.random() < 0.3):
        lt, la = ["(", *lt, ")"], ("par", la)
    if need_par(ra, "r") or (ra[0] == "bin" and rng.random() < 0.3):
        rt, ra = ["(", *rt, ")"], ("par", ra)
    if ra[0] == "un" and rng.random() < 0.5:
        rt, ra = ["(", *rt, ")"], ("par", ra)
    return [*lt, op, *rt], ("bin", op, la, ra)


def exact(ast, stats):
    k = ast[0]
    if k == "stat":
        return Fraction(float(stats[ast[1]]))
    if k == "num":
        return Fraction(float(ast[1]))
    if k == "par":
        return exact(ast[1], stats)
    if k == "un":
        v = exact(ast[3], stats)
        return -v if (ast[1] == "-" and ast[2] % 2) else v
    a, b = exact(ast[2], stats), exact(ast[3], stats)
    if ast[1] == "+":
        return a + b
    if ast[1] == "-":
        return a - b
    if ast[1] == "*":
        return a * b
    if b == 0:
        raise ZeroDivisionError
    return a / b


def well_conditioned(ast, stats, rel=1e-11):
    """True when the expression's value is insensitive (to `rel`) to rounding: of its intermediate results (evaluated in
    float64 like any implementation would) and of the statistics themselves (perturbed by a few ulps, one at a time).
    Ill-conditioned expressions (cancellation between a constant and a tiny statistic, ...) have no float64 value that two
    correct implementations would agree on to 1e-9, so they are not used to judge create_config."""
    class F(float):
        pass
    try:
        ref = exact(ast, {k: Fraction(v) for k, v in stats.items()})
        vals = [float(exact_float(ast, stats))]
        for k in stats:
            for f in (1 - 2.0 ** -48, 1 + 2.0 ** -48):
                vals.append(float(exact(ast, {**{q: Fraction(v) for q, v in stats.items()}, k: Fraction(stats[k] * f)})))
    except (ZeroDivisionError, OverflowError):
        return False
    r = float(ref)
    return all(math.isfinite(v) and abs(v - r) <= rel * abs(r) for v in vals)


def exact_float(ast, stats):
    """the same evaluation in float64 arithmetic"""
    k = ast[0]
    if k == "stat":
        return float(stats[ast[1]])
    if k == "num":
        return float(ast[1])
    if k == "par":
        return exact_float(ast[1], stats)
    if k == "un":
        v = exact_float(ast[3], stats)
        return -v if (ast[1] == "-" and ast[2] % 2) else v
    a, b = exact_float(ast[2], stats), exact_float(ast[3], stats)
    if ast[1] == "+":
        return a + b
    if ast[1] == "-":
        return a - b
    if ast[1] == "*":
        return a * b
    if b == 0:
        raise ZeroDivisionError
    return a / b


def flat_eval(tokens, stats):
    """second, independent oracle: precedence-climbing straight over the token list (catches a
    mistake in the AST bookkeeping of the generator itself)"""
    pos = 0

    def atom():
        nonlocal pos
        t = tokens[pos]
        if t in "+-" and len(t) == 1:
            pos += 1
            v = atom()
            return -v if t == "-" else v
        if t == "(":
            pos += 1
            v = expr()
            pos += 1
            return v
        pos += 1
        return Fraction(float(stats[t])) if t in stats else Fraction(float(t))

    def term():
        nonlocal pos
        v = atom()
        while pos < len(tokens) and tokens[pos] in ("*", "/"):
            op = tokens[pos]
            pos += 1
            w = atom()
            if op == "/" and w == 0:
                raise ZeroDivisionError
            v = v * w if op == "*" else v / w
        return v

    def expr():
        nonlocal pos
        v = term()
        while pos < len(tokens) and tokens[pos] in ("+", "-"):
            op = tokens[pos]
            pos += 1
            w = term()
            v = v + w if op == "+" else v - w
        return v
    return expr()


def depth_of(ast):
    if ast[0] in ("stat", "num"):
        return 0
    if ast[0] == "par":
        return depth_of(ast[1])
    if ast[0] == "un":
        return 1 + depth_of(ast[3])
    return 1 + max(depth_of(ast[2]), depth_of(ast[3]))


def shape_of(ast):
    s = set()

    def walk(a):
        s.add(a[0] if a[0] != "bin" else a[1])
        for x in a[1:]:
            if isinstance(x, tuple):
                walk(x)
    walk(ast)
    return "".join(sorted(s))


# --------------------------------------------------------------------------- stack hook


class StackHook:
    def __init__(self, fx) -> None:
        self.fx = fx
        self.real = fx.evaluate_stack
        self.depth = 0
        self.consumed = None
        hook = self

        def wrapped(s, stats):
            hook.depth += 1
            before = len(s) if hook.depth == 1 else None
            try:
                return hook.real(s, stats)
            finally:
                hook.depth -= 1
                if hook.depth == 0 and before is not None:
                    hook.consumed = before - len(s)
        self.wrapped = wrapped

    def __enter__(self):
        self.fx.evaluate_stack = self.wrapped
        return self

    def __exit__(self, *a) -> None:
        self.fx.evaluate_stack = self.real


# --------------------------------------------------------------------------- parts


def part_eval(ctx) -> None:
    from ioos_qc.config_creator import fx_parser as fx

    rng = ctx.rng
    maxd = ctx.pick(5, 7)
    prev = "start"
    with StackHook(fx) as hook:
        for _ in range(ctx.pick(6000, 40000)):
            r = rng.random()
            stats = {k: rng.choice(STATS_POOL) for k in ("min", "max", "mean", "std")}
            if rng.random() < 0.5:
                ks = list(stats)
                rng.shuffle(ks)
                stats = {k: stats[k] for k in ks}  # the statistics are looked up by name, not by position
            if rng.random() < 0.3:
                import numpy as _np
                stats = {k: rng.choice([_np.float64, float])(v) for k, v in stats.items()}  # (as np.nanmin etc. return them)
            if r < 0.08:
                bad = rng.choice(["1 +", "( 1", "1 + ( 2 *", ")", "* 2", "min max", "", "1 + + ", "( )", "2 * ( 3 + 4"])
                try:
                    fx.eval_fx(bad, stats)
                    outcome = "accepted"
                except Exception:  # noqa: BLE001
                    outcome = "rejected"
                ctx.count("c20.history.parse_failures")
                if outcome == "accepted" and bad not in ("",):
                    ctx.violation("C20:eval:malformed-expression-evaluated", {"kind": "eval_fx", "expr": bad})
                prev = "parse-failure"
                continue
            if r < 0.14:
                bad = rng.choice(["foo + 1", "1 + bar", "mean * sigma", "minimum", "x"])
                try:
                    fx.eval_fx(bad, stats)
                    ctx.violation("C20:eval:invalid-identifier-evaluated", {"kind": "eval_fx", "expr": bad})
                except Exception:  # noqa: BLE001
                    pass
                ctx.count("c20.history.invalid_identifiers")
                prev = "invalid-identifier"
                continue
            tokens, ast = gen_expr(rng, rng.randrange(0, maxd + 1) if rng.random() < 0.97 else maxd + 3)
            text = " ".join(tokens) if rng.random() < 0.8 else "".join(
                tok if i == 0 or not (tok in "+-" and tokens[i - 1] in "+-*/(") else " " + tok for i, tok in enumerate(tokens))
            try:
                want = exact(ast, stats)
                want2 = flat_eval(tokens, stats)
            except ZeroDivisionError:
                ctx.count("c20.division_by_zero_skipped")
                try:
                    fx.eval_fx(text, stats)
                except Exception:  # noqa: BLE001
                    pass
                prev = "zero-division"
                continue
            if want != want2:
                ctx.notes.append(f"oracle disagreement on {text}: {want} vs {want2}")
                continue
            before = len(fx.exprStack)
            prefix = list(fx.exprStack)
            hook.consumed = None
            try:
                got = fx.eval_fx(text, stats)
            except Exception as e:  # noqa: BLE001
                ctx.violation(f"C20:eval:raised:{type(e).__name__}",
                              {"kind": "eval_fx", "expr": text, "stats": stats, "after": prev, "error": repr(e)[:200]})
                prev = "valid"
                continue
            pushed = len(fx.exprStack) - before
            ctx.count("c20.evaluations_judged")
            wf = float(want)
            ok = (got == wf) if "/" not in tokens else math.isclose(got, wf, rel_tol=1e-12, abs_tol=1e-12)
            d = depth_of(ast)
            ctx.case(f"eval|d{d}|{shape_of(ast)}|after-{prev}", trivial=d == 0,
                     sample={"expr": text, "stats": stats, "value": got, "after": prev})
            if not ok:
                ctx.violation(f"C20:eval:wrong-value:after-{prev}",
                              {"kind": "eval_fx", "expr": text, "stats": stats, "expected": wf, "observed": got,
                               "previous_in_history": prev, "stack_len_before": before})
            # the hook only applies to the append-only stack strategy (tokens of earlier parses left in place)
            if hook.consumed is not None and pushed >= 0 and fx.exprStack[:before] == prefix:
                ctx.count("c20.stack_hook_observations")
                if hook.consumed != pushed and pushed > 0:
                    # recorded only: the value oracle over histories decides; the bookkeeping of the stack is an
                    # implementation strategy (e.g. clearing the stack before each parse is equally correct)
                    ctx.count("c20.stack_hook_pushed_ne_consumed")
            prev = "valid"


def part_validator(ctx) -> None:
    from ioos_qc.config_creator.config_creator import QcVariableConfig

    rng = ctx.rng
    good = ["min", "max", "mean", "std", "+", "-", "*", "/", "(", ")", "1", "2.5", "0", "10", "3.", "1e2"]
    badtok = ["median", "MIN", "Max", "sum", "^", "**", "%", "[", "]", "min+1", "(min", "std)", "2*3", "abs", "e", "pi", ",",
              "mean,", "x", "__import__", "min;", "$", "1/2",
              # runs of allowed characters are not allowed tokens (a token is one operator, one parenthesis, one statistic)
              "+-", "*/", "-*", "+-*/", "--", "()", ")(", "((", "minmax", "meanstd", "ma", "in", "-+"]
    unjudged = ["nan", "inf", "-inf", "infinity", "1_0", "１２", "NaN", ""]
    for _ in range(ctx.pick(2500, 15000)):
        k = rng.randrange(1, 8)
        toks, kind = [], "good"
        for _i in range(k):
            r = rng.random()
            if r < 0.8:
                toks.append(rng.choice(good))
            elif r < 0.95:
                toks.append(rng.choice(badtok))
                kind = "bad" if kind != "unjudged" else kind
            else:
                toks.append(rng.choice(unjudged))
                kind = "unjudged"
        spec = " ".join(toks)
        field = rng.choice(["suspect_min", "suspect_max", "fail_min", "fail_max"])
        tests = {"gross_range_test": {"suspect_min": "1", "suspect_max": "2", "fail_min": "0", "fail_max": "3"}}
        tests["gross_range_test"][field] = spec
        cfg = {"variable": "temp", "bbox": [0, 0, 1, 1], "start_time": "2021-01-01", "end_time": "2021-02-01", "tests": tests}
        try:
            QcVariableConfig(cfg)
            accepted, err = True, None
        except ValueError as e:
            accepted, err = False, e
        except Exception as e:  # noqa: BLE001
            accepted, err = False, e
            if kind != "unjudged":
                ctx.violation(f"C20:validator:wrong-exception:{type(e).__name__}", {"kind": "validator", "spec": spec})
        ctx.count("c20.validator_cases")
        ctx.case(f"validator|{kind}|n{k}|{'acc' if accepted else 'rej'}", sample={"spec": spec, "accepted": accepted})
        if kind == "good" and not accepted:
            ctx.violation("C20:validator:rejected-allowed-tokens", {"kind": "validator", "spec": spec, "error": repr(err)[:200]})
        if kind == "bad" and accepted:
            ctx.violation("C20:validator:accepted-forbidden-token", {"kind": "validator", "spec": spec})


def write_climatology(scratch, rng, three_d, zero_sum=False, big=False):
    import xarray as xr

    year = rng.choice([2019, 2020, 2021])
    times = np.array([np.datetime64(f"{year}-{m:02d}-15") for m in range(1, 13)], dtype="datetime64[ns]")
    nlat, nlon = rng.randrange(3, 8), rng.randrange(3, 9)
    if big:
        nlat, nlon = rng.choice([(17, 20), (18, 19), (16, 33), (13, 21)])  # boxes of several hundred cells
    lat0, lon0 = rng.choice([-30.0, 0.0, 41.0]), rng.choice([-120.0, -3.0, 10.0, 150.0])
    lat = lat0 + np.arange(nlat) * 1.0
    lon = lon0 + np.arange(nlon) * 1.0
    if rng.random() < 0.2:
        lon = 179.5 - np.arange(nlon)[::-1] * 1.0  # a grid that ends half a degree west of the antimeridian
    # coordinate axes may be stored in either direction (north-to-south latitudes are common)
    if rng.random() < 0.35:
        lat = lat[::-1].copy()
    if rng.random() < 0.2:
        lon = lon[::-1].copy()
    if rng.random() < 0.2 and float(lon[0]) == int(lon[0]):
        # whole-degree grids are sometimes stored with integer coordinate variables; a box edge at x.75 is still x.75
        lat, lon = lat.astype(rng.choice(["int32", "int64"])), lon.astype(rng.choice(["int32", "int16"]))
    field = np.array([[rng.choice([-2.0, -1.0, 0.5, 1.0, 2.0, 3.5, 7.0, 12.25]) for _ in range(nlon)] for _ in range(nlat)])
    land = np.array([[rng.random() < 0.2 for _ in range(nlon)] for _ in range(nlat)])
    if zero_sum:
        field[:] = 5.0
        land[:] = False
    field = np.where(land, np.nan, field)
    field = field * rng.choice([1.0, 1.0, 1.0, 2.0 ** -36, 2.0 ** -44, 2.0 ** 12])  # physical units are arbitrary
    if not zero_sum and rng.random() < 0.25:
        # a small signal on a large offset (pressure in Pa, ...): the spread is that of the signal
        field = field * 2.0 ** -6 + rng.choice([101325.0, 1.0e6, -2.0 ** 22])
    sfield = field * 2.0 + 1.0
    sfield[: max(2, nlat // 2), : max(2, nlon // 2)] = np.nan  # the second variable has no data over this block
    if three_d:
        # the level used is the first one stored, whichever way the depth coordinate runs
        depths = rng.choice([[0.0, 10.0], [0.0, 10.0], [20.0, 10.0, 0.0], [-20.0, -10.0, 0.0], [5.0, 50.0, 500.0]])
        nlev = len(depths)
        data = np.broadcast_to(field, (12, nlev, nlat, nlon)).copy()
        for j_ in range(1, nlev):
            data[:, j_] += 100.0 * j_
        sdata = np.broadcast_to(sfield, (12, nlev, nlat, nlon)).copy()
        ds = xr.Dataset({"tvar": (("time", "depth", "lat", "lon"), data), "svar": (("time", "depth", "lat", "lon"), sdata)},
                        coords={"time": times, "depth": depths, "lat": lat, "lon": lon})
    else:
        data = np.broadcast_to(field, (12, nlat, nlon)).copy()
        sdata = np.broadcast_to(sfield, (12, nlat, nlon)).copy()
        ds = xr.Dataset({"tvar": (("time", "lat", "lon"), data), "svar": (("time", "lat", "lon"), sdata)},
                        coords={"time": times, "lat": lat, "lon": lon})
    return ds, field, lat, lon, year


def atol_for(field):
    mag = max(1e-300, float(np.nanmax(np.abs(field)))) if np.isfinite(field).any() else 1.0
    return 1e-9 * min(1.0, mag)


def part_creator(ctx) -> None:
    from ioos_qc.config_creator.config_creator import CreatorConfig, QcConfigCreator, QcVariableConfig

    rng = ctx.rng
    scratch = P.Scratch()
    try:
        for it in range(ctx.pick(36, 300)):
            three_d = rng.random() < 0.4
            on_grid = False
            zero_case = it % 9 == 8  # targeted sub-check for the zero-sum mechanism
            big = (it % 9 == 4) and not zero_case
            ds, field, lat, lon, year = write_climatology(scratch, rng, three_d, zero_sum=zero_case, big=big)
            if zero_case:
                # in-box cells {+1, -1} (sum exactly 0) surrounded by 5s
                i0, j0 = 1, 1
                vals = ds["tvar"].values
                if three_d:
                    vals[:, 0, i0, j0], vals[:, 0, i0, j0 + 1] = 1.0, -1.0
                else:
                    vals[:, i0, j0], vals[:, i0, j0 + 1] = 1.0, -1.0
                field = vals[0, 0] if three_d else vals[0]
                bbox = [float(min(lon[j0], lon[j0 + 1])) - 0.25, float(lat[i0]) - 0.25, float(max(lon[j0], lon[j0 + 1])) + 0.25, float(lat[i0]) + 0.25]
            else:
                for _try in range(30):
                    i1, i2 = sorted(rng.sample(range(len(lat) + 1), 2))
                    j1, j2 = sorted(rng.sample(range(len(lon) + 1), 2))
                    if big:  # (nearly) the whole grid: more than 256 cells, not a multiple of 256
                        i1, i2, j1, j2 = rng.choice([0, 1]), len(lat), rng.choice([0, 1]), len(lon) - rng.choice([0, 1])
                        ctx.count("c20.create_config_boxes_of_several_hundred_cells")
                    if it % 3 == 0 and _try < 20 and (i2 - i1 < 3 or j2 - j1 < 3):
                        continue  # on-grid cases need an interior
                    sub = field[i1:i2, j1:j2]
                    if sub.size and np.isfinite(sub).any() and np.nansum(sub) != 0:
                        break
                else:
                    continue
                (w_, e_), (s_, n_) = sorted((float(lon[j1]), float(lon[j2 - 1]))), sorted((float(lat[i1]), float(lat[i2 - 1])))
                bbox = [w_ - 0.25, s_ - 0.25, e_ + 0.25, n_ + 0.25]
                if e_ == 179.5:
                    bbox[2] = 180.0  # the antimeridian itself is a legal east edge
                    ctx.count("c20.create_config_east_edge_180")
                if it % 7 == 3:
                    # a degenerate box on one grid meridian / parallel: the cells on that line are the cells inside
                    if rng.random() < 0.5:
                        bbox = [float(lon[j1]), s_ - 0.25, float(lon[j1]), n_ + 0.25]
                    else:
                        bbox = [w_ - 0.25, float(lat[i1]), e_ + 0.25, float(lat[i1])]
                    chk = field[(lat >= bbox[1]) & (lat <= bbox[3])][:, (lon >= bbox[0]) & (lon <= bbox[2])]
                    if not np.isfinite(chk).any() or np.nansum(chk) == 0:
                        continue
                    ctx.count("c20.create_config_degenerate_boxes")
                elif it % 3 == 0 and i2 - i1 >= 3 and j2 - j1 >= 3:
                    # edges exactly on grid coordinates: 'inside' may mean the closed or the open box, but the same on
                    # all four sides -- both readings are admissible, a mixture is not
                    bbox = [w_, s_, e_, n_]
                    on_grid = True
            path = scratch.path(".nc")
            ds.to_netcdf(path, engine="scipy")
            inbox = field[(lat >= bbox[1]) & (lat <= bbox[3])][:, (lon >= bbox[0]) & (lon <= bbox[2])]
            cells = inbox[np.isfinite(inbox)]
            def stats_of(c):
                return {"min": float(c.min()), "max": float(c.max()), "mean": float(c.mean()),
                        "std": float(np.sqrt(((c - c.mean()) ** 2).mean()))}
            stats = stats_of(cells)
            alt_stats = None
            if on_grid:
                ob = field[(lat > bbox[1]) & (lat < bbox[3])][:, (lon > bbox[0]) & (lon < bbox[2])]
                oc = ob[np.isfinite(ob)]
                if oc.size == 0 or oc.sum() == 0 or cells.sum() == 0:
                    continue
                alt_stats = stats_of(oc)
            start = dt.date(year, 1, 1) + dt.timedelta(days=rng.randrange(0, 365))
            ndays = rng.choice([1, 2, 30, 90, 200, 364, rng.randrange(1, 365)])
            end = start + dt.timedelta(days=ndays)
            exprs, alt_exprs = {}, {}
            tests = {}
            for tname, fields in (("gross_range_test", ["suspect_min", "suspect_max", "fail_min", "fail_max"]),
                                  ("spike_test", ["suspect_threshold", "fail_threshold"]),
                                  ("rate_of_change_test", ["threshold"]),
                                  ("flat_line_test", ["suspect_threshold", "fail_threshold", "tolerance"])):
                if tname != "gross_range_test" and rng.random() < 0.5:
                    continue
                tests[tname] = {}
                for f in fields:
                    while True:
                        toks, ast = gen_expr(rng, rng.randrange(0, 4))
                        try:
                            val = exact(ast, {k: Fraction(v) for k, v in stats.items()})
                        except ZeroDivisionError:
                            continue
                        if well_conditioned(ast, stats) and (alt_stats is None or well_conditioned(ast, alt_stats)):
                            break
                        ctx.count("c20.ill_conditioned_expressions_regenerated")
                    tests[tname][f] = " ".join(toks)
                    exprs[(tname, f)] = float(val)
                    if alt_stats is not None:
                        try:
                            alt_exprs[(tname, f)] = float(exact(ast, {k: Fraction(v) for k, v in alt_stats.items()}))
                        except ZeroDivisionError:
                            alt_exprs[(tname, f)] = None
                if tname == "gross_range_test":
                    pass
            if rng.random() < 0.3:
                tests["location_test"] = {"bbox": [-80, 40, -70, 60]}
            vcfg = {"variable": "temp", "bbox": bbox, "start_time": start.isoformat(), "end_time": end.isoformat(), "tests": tests}
            wb = {"kind": "create_config", "three_d": three_d, "lat": lat.tolist(), "lon": lon.tolist(),
                  "field(first depth)": core.jsonable(field), "bbox": bbox, "start": start.isoformat(), "end": end.isoformat(),
                  "tests": tests, "in_box_stats": stats, "in_box_sum": float(cells.sum())}
            import copy as _copy
            vcfg_before = _copy.deepcopy(vcfg)
            try:
                dsc = {"name": "synthetic", "file_path": str(path), "variables": {"temp": "tvar", "salt": "svar"}}
                if three_d:
                    dsc["3d"] = "depth"
                creator = QcConfigCreator(CreatorConfig({"datasets": [dsc]}))
                if it % 3 == 1:
                    # history: the same creator first serves another variable of the same dataset with a numerically equal
                    # bounding box (that variable may have no data there and make the library widen ITS box)
                    try:
                        creator.create_config(QcVariableConfig({**vcfg, "variable": "salt", "bbox": list(bbox)}))
                    except Exception:  # noqa: BLE001
                        pass
                    ctx.count("c20.creator_reused_for_another_variable")
                out = creator.create_config(QcVariableConfig(vcfg))
            except Exception as e:  # noqa: BLE001
                ctx.violation(f"C20:create_config:raised:{type(e).__name__}@{P.client_where(e)}", {**wb, "error": repr(e)[:300]})
                continue
            ctx.count("c20.create_config_runs")
            if vcfg != vcfg_before:
                ctx.violation("C20:create_config:caller-config-modified",
                              {**wb, "config_before": core.jsonable(vcfg_before), "config_after": core.jsonable(vcfg)})
            # a box holding no grid node has to be widened by the library; whatever it returns, the caller's
            # bounding box list must come back untouched (a second variable may share it)
            if it % 4 == 1:
                empty_box = [float(lon[0]) + 0.2, float(lat[0]) + 0.2, float(lon[0]) + 0.4, float(lat[0]) + 0.4]
                shared = list(empty_box)
                v2 = dict(vcfg, bbox=shared)
                v2["tests"] = {"gross_range_test": {"suspect_min": "min", "suspect_max": "max", "fail_min": "min - 1", "fail_max": "max + 1"}}
                out2 = None
                try:
                    out2 = creator.create_config(QcVariableConfig(v2))
                except Exception:  # noqa: BLE001
                    pass
                ctx.count("c20.create_config_widened_box_runs")
                if out2 is not None:
                    # documented fallback: the box is widened in half-degree steps until it holds data; the spans are then
                    # those of SOME widened box (which one exactly is the library's business), never those of "no data"
                    g2 = out2.get("temp", {}).get("qartod", {}).get("gross_range_test", {})
                    ss2 = g2.get("suspect_span", [None, None])
                    matches = False
                    for k_ in range(1, 25):
                        bx = [empty_box[0] - 0.5 * k_, empty_box[1] - 0.5 * k_, empty_box[2] + 0.5 * k_, empty_box[3] + 0.5 * k_]
                        cb = field[(lat >= bx[1]) & (lat <= bx[3])][:, (lon >= bx[0]) & (lon <= bx[2])]
                        cb = cb[np.isfinite(cb)]
                        if cb.size and ss2[0] is not None and math.isclose(ss2[0], float(cb.min()), rel_tol=1e-9, abs_tol=atol_for(field)) \
                                and math.isclose(ss2[1], float(cb.max()), rel_tol=1e-9, abs_tol=atol_for(field)):
                            matches = True
                            break
                    ctx.count("c20.create_config_widened_box_spans_judged")
                    if not matches:
                        ctx.violation("C20:create_config:widened-box-spans-match-no-widened-box",
                                      {**wb, "requested_box(no grid node inside)": empty_box, "observed_suspect_span": ss2})
                if shared != empty_box:
                    ctx.violation("C20:create_config:caller-bbox-modified",
                                  {**wb, "bbox_before": empty_box, "bbox_after": shared})
            gk = ("3d" if three_d else "2d") + ("|zero-sum" if zero_case else "") + ("|year-crossing" if end.year != start.year else "")
            ctx.case(f"creator|{gk}|land{int(np.isnan(inbox).any())}|cells{min(cells.size, 4)}|{'+'.join(sorted(tests))}",
                     sample={k: wb[k] for k in ("bbox", "start", "end", "tests", "in_box_stats")})
            sec = out.get("temp", {}).get("qartod", {})
            observed = {}
            for tname in tests:
                s = sec.get(tname, {})
                if tname == "gross_range_test":
                    ss, fs_ = s.get("suspect_span", [None, None]), s.get("fail_span", [None, None])
                    observed.update({(tname, "suspect_min"): ss[0], (tname, "suspect_max"): ss[1],
                                     (tname, "fail_min"): fs_[0], (tname, "fail_max"): fs_[1]})
                elif tname == "location_test":
                    if s.get("bbox") != tests[tname]["bbox"]:
                        ctx.violation("C20:create_config:location-bbox", {**wb, "observed": s})
                else:
                    for f in tests[tname]:
                        observed[(tname, f)] = s.get(f)
            mag = max(1e-300, float(np.nanmax(np.abs(cells))))
            atol = 1e-9 * min(1.0, mag)  # the fields come in arbitrary physical units
            bad = {f"{k[0]}.{k[1]}": {"expected": v, "observed": observed.get(k)} for k, v in exprs.items()
                   if observed.get(k) is None or not math.isclose(observed[k], v, rel_tol=1e-9, abs_tol=atol)}
            if bad and alt_stats is not None:
                # second admissible reading: cells on the edges excluded on all four sides
                bad2 = {f"{k[0]}.{k[1]}": {"expected(open box)": v, "observed": observed.get(k)} for k, v in alt_exprs.items()
                        if v is None or observed.get(k) is None or not math.isclose(observed[k], v, rel_tol=1e-9, abs_tol=atol)}
                if not bad2:
                    bad = {}
                else:
                    wb["differences_open_box"] = bad2
                    wb["open_box_stats"] = alt_stats
            if on_grid:
                ctx.count("c20.create_config_edges_on_grid")
            if bad:
                ctx.violation("C20:create_config:spans-differ-from-in-box-statistics", {**wb, "differences": bad})
    finally:
        scratch.close()


def run(ctx) -> None:
    ctx.require("c20.evaluations_judged", 2000)
    ctx.require("c20.history.parse_failures", 50)
    ctx.require("c20.history.invalid_identifiers", 50)
    ctx.require("c20.validator_cases", 1000)
    ctx.require("c20.create_config_runs", 20)
    part_eval(ctx)
    part_validator(ctx)
    part_creator(ctx)
