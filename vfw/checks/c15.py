"""C15 — flags do not depend on how the same series and times are represented (DESIGN §4 C15)."""
from __future__ import annotations

import numpy as np
import pandas as pd

from vfw import client, core, gen

LEVEL = "exploration"
SHARDS = {"quick": 4, "thorough": 16}
ANCHORS = [("utils.py", "mapdates"), ("qartod.py", "gross_range_test"), ("qartod.py", "spike_test"),
           ("qartod.py", "climatology_test"), ("qartod.py", "flat_line_test"), ("argo.py", "speed_test"),
           ("axds.py", "valid_range_test")]
RULE = ("each logical case (test function, dyadic series with missing values, whole-second time axis, auxiliary depth / "
        "position series, parameters) is executed under a baseline (float64 ndarray + datetime64[ns] + list spans) "
        "and under every documented carrier: data/aux as list/tuple with None, with NaN, float32 / object / int "
        "(no missing) ndarray, numpy masked array over a finite value, pandas Series with default and shifted "
        "index, dask array; times as datetime64 ns/us/ms/s, Python datetimes naive/UTC, Timestamps, DatetimeIndex "
        "naive/UTC, Series naive/UTC, epoch ints/floats/lists (whole seconds and a half-second grid); spans as tuples.  Recorded results are grouped by case "
        "and every member's flags must equal the baseline's.  distinct = (function mode, varied input, carrier, "
        "flag set); trivial = baseline itself.")
ASSUMPTIONS = ["values are float32-exact dyadics so that a float32 carrier is the same logical series",
               "only the carriers listed in the statement; nullable pandas extension dtypes are out of scope",
               "valid_range_test needs dtype= for plain lists (documented), so list carriers pass dtype there",
               "object ndarrays and tz-aware *data* are not offered to valid_range_test (it takes the dtype from the input; "
               "'any real dtype' and the tz-aware carriers of the statement refer to numeric data and to time inputs); integer "
               "carriers reach valid_range_test only with spans that dtype can represent (the span is documented to be cast to it)"]
EXHAUSTIVE_ALL = False

DATA_CARRIERS = ["list-none", "tuple-none", "list-nan", "tuple-nan", "f32", "object", "masked-finite", "masked-nan",
                 "series", "series-shifted", "dask", "int", "int16", "uint8", "int32", "int8", "f16", "masked-fill-is-a-value", "dask-irregular"]
TIME_CARRIERS = [c for c in gen.TIME_CARRIERS if c != "dt64ns"]
REVERSE_SPANS = False  # toggled per logical case by run()
T0F = float(gen.T0)
POISON = [1.0, 2.5, -7.0, 100.0, 0.0]  # finite values hidden under the mask: GOOD-, SUSPECT- and FAIL-looking


def dcar(x, how, poison=1.0):
    has_missing = any(v is None for v in x)
    if how == "baseline":
        return gen.arr(x)
    if how == "list-none":
        return list(x)
    if how == "tuple-none":
        return tuple(x)
    if how == "list-nan":
        return gen.nanlist(x)
    if how == "tuple-nan":
        return tuple(gen.nanlist(x))
    if how == "f32":
        return gen.arr(x).astype(np.float32)
    if how == "f16":
        if any(v is not None and float(np.float16(v)) != v for v in x):
            return None  # not the same logical series in half precision
        return gen.arr(x).astype(np.float16)
    if how == "masked-fill-is-a-value":
        # a masked array whose fill_value happens to equal one of its (unmasked, perfectly good) observations
        present = [v for v in x if v is not None]
        if not present:
            return None
        ma = np.ma.MaskedArray(np.array([poison if v is None else v for v in x], dtype=float), mask=[v is None for v in x])
        ma.fill_value = present[len(x) % len(present)]
        return ma
    if how == "object":
        return np.array(list(x), dtype=object)
    if how == "masked-finite":
        return np.ma.MaskedArray(np.array([poison if v is None else v for v in x], dtype=float),
                                 mask=[v is None for v in x] if len(x) else False)
    if how == "masked-nan":
        return np.ma.MaskedArray(gen.arr(x), mask=[v is None for v in x] if len(x) else False)
    if how == "series":
        return pd.Series(gen.arr(x))
    if how == "series-shifted":
        return pd.Series(gen.arr(x), index=range(10, 10 + len(x)))
    if how == "dask":
        import dask.array as da

        return da.from_array(gen.arr(x), chunks=max(1, len(x) // 2))
    if how == "dask-irregular":
        import dask.array as da

        a_ = gen.arr(x)
        if len(x) < 4:
            return None
        cuts = (1, len(x) - 3, 2) if len(x) >= 6 else (1, len(x) - 1)  # blocks of unequal sizes, the small ones at the ends
        return da.from_array(a_, chunks=(cuts,))
    if how == "int":
        if has_missing or any(v != int(v) for v in x):
            return None
        return np.array([int(v) for v in x], dtype=np.int64)
    if how in ("int16", "uint8", "int32", "int8"):
        info = np.iinfo(how)
        if has_missing or any(v != int(v) or not (info.min <= v <= info.max) for v in x):
            return None
        return np.array([int(v) for v in x], dtype=how)
    raise KeyError(how)


def cases(rng):
    """yield (mode, func, roles) where roles: name -> (kind, logical value)"""
    n = rng.choice([1, 2, 3, 5, 8, 12])
    # "precision" family: an offset of 2^24 makes the 1/4 steps of the series unrepresentable in float32,
    # so a carrier that is silently narrowed shows up (the f32 carrier itself is skipped for these cases)
    OFF = float(2 ** 24) if rng.random() < 0.4 else 0.0
    t = gen.irregular(rng, n, steps=(1, 60, 61, 3600, 86400)) if rng.random() < 0.5 else gen.regular(n, rng.choice([1, 60, 900]))
    if rng.random() < 0.3:
        # sub-second family: instants on a 0.5 s grid (numbers of seconds need not be whole)
        t = [T0F + 0.5 * k for k in sorted(rng.sample(range(0, 40), n))]
    intvals = rng.random() < 0.25
    pm = 0 if intvals else rng.choice([0, 0.2, 0.4])
    x = [None if rng.random() < pm else (float(rng.randrange(-3, 6)) if intvals else gen.dyadic(rng, -3, 5, 4)) for _ in range(n)]
    z = [None if rng.random() < pm / 2 else float(rng.randrange(0, 6)) for _ in range(n)]
    lon = [None if rng.random() < pm / 2 else 10.0 + 0.25 * rng.randrange(0, 9) for _ in range(n)]
    lat = [None if rng.random() < pm / 2 else 50.0 + 0.125 * rng.randrange(0, 9) for _ in range(n)]
    x = [None if v is None else v + OFF for v in x]
    if intvals and OFF == 0.0 and rng.random() < 0.6:
        lo_, hi_ = rng.choice([(100, 127), (180, 250), (15000, 17000), (-30000, -20000), (2 ** 30, 2 ** 30 + 2000), (33280, 57600)])
        x = [float(rng.randrange(lo_, hi_ + 1)) for _ in range(n)]
        if lo_ == 33280:
            # multiples of 32 above 2^15: exact in half precision, their neighbour sums are not even finite there
            x = [float(32 * rng.randrange(lo_ // 32, hi_ // 32 + 1)) for _ in range(n)]
        if rng.random() < 0.5 and n >= 3:
            x[n // 2] = float(lo_ if x[n // 2] > (lo_ + hi_) / 2 else hi_)
        span_lo, span_hi = lo_ + (hi_ - lo_) // 4, hi_ - (hi_ - lo_) // 4
    else:
        span_lo = span_hi = None
    D = ("data", x)
    Tm = ("time", t)
    if any(v != int(v) for v in t):
        return _subsec_cases(rng, x, z, lon, lat, t, D, Tm)
    return [
        ("gross_range", "qartod.gross_range_test", {"inp": D, "fail_span": ("span", [-2 + OFF, 4 + OFF] if span_lo is None else [span_lo - 3, span_hi + 3]),
                                                    "suspect_span": ("span", [-1 + OFF, 2 + OFF] if span_lo is None else [span_lo, span_hi])}),
        ("valid_range", "axds.valid_range_test", {"inp": D, "valid_span": ("span", [-1 + OFF, 3 + OFF])}),
        ("spike-average", "qartod.spike_test", {"inp": D, "suspect_threshold": ("param", 0.5 if span_lo is None else 3),
                                                "fail_threshold": ("param", 2 if span_lo is None else 12)}),
        ("spike-differential", "qartod.spike_test", {"inp": D, "suspect_threshold": ("param", 0.5), "fail_threshold": ("param", 2),
                                                     "method": ("param", "differential")}),
        ("rate_of_change", "qartod.rate_of_change_test", {"inp": D, "tinp": Tm, "threshold": ("param", 0.01)}),
        ("flat_line", "qartod.flat_line_test", {"inp": D, "tinp": Tm, "suspect_threshold": ("param", 120),
                                                "fail_threshold": ("param", 3600), "tolerance": ("param", 1.5)}),
        ("attenuated-whole", "qartod.attenuated_signal_test", {"inp": D, "tinp": Tm, "suspect_threshold": ("param", 2),
                                                               "fail_threshold": ("param", 0.5),
                                                               "check_type": ("param", rng.choice(["std", "range"]))}),
        ("attenuated-window", "qartod.attenuated_signal_test", {"inp": D, "tinp": Tm, "suspect_threshold": ("param", 2),
                                                                "fail_threshold": ("param", 0.5), "test_period": ("param", 3700),
                                                                "min_obs": ("param", 2),
                                                                "check_type": ("param", rng.choice(["std", "range"]))}),
        ("attenuated-window-frac", "qartod.attenuated_signal_test", {"inp": D, "tinp": ("time", gen.regular(n, 1, t0=t[0])),
                                                                     "suspect_threshold": ("param", 2 + OFF * 0), "fail_threshold": ("param", 0.5),
                                                                     "test_period": ("param", rng.choice([2.5, 3.5, 2.0005])),
                                                                     "min_obs": ("param", 2), "check_type": ("param", rng.choice(["std", "range"]))}),
        ("climatology", "qartod.climatology_test", {
            "config": ("param", [{"tspan": ("2021-03-01T00:00:00", "2021-03-01T02:00:00"), "vspan": (0 + OFF, 2 + OFF), "fspan": [-2 + OFF, 4 + OFF]},
                                 {"tspan": [3, 4], "period": "month", "vspan": [-1 + OFF, 1 + OFF], "zspan": (1, 4)}]),
            "inp": D, "tinp": Tm, "zinp": ("aux", z)}),
        ("density_inversion", "qartod.density_inversion_test", {"inp": D, "zinp": ("aux", z), "suspect_threshold": ("param", 0.5),
                                                                "fail_threshold": ("param", -0.5)}),
        ("location", "qartod.location_test", {"lon": ("aux", lon), "lat": ("aux", lat), "bbox": ("span", [10.25, 50, 11.75, 50.875]),
                                              "range_max": ("param", 40000.0)}),
        ("speed", "argo.speed_test", {"lon": ("aux", lon), "lat": ("aux", lat), "tinp": Tm, "suspect_threshold": ("param", 30),
                                      "fail_threshold": ("param", 600)}),
        ("pressure_increasing", "argo.pressure_increasing_test",
         {"inp": ("data-nomissing", [float(k) if k != n // 2 else float(k) - rng.choice([0, 1, 2]) for k in range(n)])}),
        ("valid_range-time", "axds.valid_range_test", {"inp": ("timedata", t),
                                                       "valid_span": ("timespan", [t[0] + 1, t[-1]])}),
    ]


def _subsec_cases(rng, x, z, lon, lat, t, D, Tm):
    """time-dependent tests only, on a half-second grid (flat_line_test is left out: it converts durations to
    counts with the sampling step in whole seconds, which is 0 here -- sub-second sampling is outside C11's domain)"""
    return [
        ("rate_of_change-subsec", "qartod.rate_of_change_test", {"inp": D, "tinp": Tm, "threshold": ("param", 0.4)}),
        ("attenuated-window-subsec", "qartod.attenuated_signal_test", {"inp": D, "tinp": Tm, "suspect_threshold": ("param", 2),
                                                                       "fail_threshold": ("param", 0.5), "test_period": ("param", 4),
                                                                       "min_obs": ("param", 2)}),
        ("speed-subsec", "argo.speed_test", {"lon": ("aux", lon), "lat": ("aux", lat), "tinp": Tm,
                                             "suspect_threshold": ("param", 3000), "fail_threshold": ("param", 60000)}),
        ("climatology-subsec", "qartod.climatology_test", {
            "config": ("param", [{"tspan": ("2021-03-01T00:00:05", "2021-03-01T00:00:12"), "vspan": (0, 2), "fspan": [-2, 4]}]),
            "inp": D, "tinp": Tm, "zinp": ("aux", z)}),
    ]


def build(roles, vary=None, how=None, func=None):
    """kwargs for the baseline, or with input `vary` rendered in carrier `how`; None if not applicable."""
    kw = {}
    joint = vary if isinstance(vary, dict) else None  # {input name: carrier}: several inputs rendered at once
    for name, (kind, val) in roles.items():
        mine = name == vary or (joint is not None and name in joint)
        if joint is not None and name in joint:
            how = joint[name]
        if kind in ("data", "aux", "data-nomissing"):
            c = how if mine else "baseline"
            if c == "f32" and kind != "aux" and any(v is not None and float(np.float32(v)) != v for v in val):
                return None  # not the same logical series in float32
            if kind == "data-nomissing" and c in ("list-none", "tuple-none", "masked-finite", "masked-nan", "object", "masked-fill-is-a-value"):
                return None
            if c == "f16" and func == "axds.valid_range_test":
                sp = roles.get("valid_span", (None, []))[1]
                if any(b is not None and float(np.float16(b)) != b for b in sp):
                    return None  # the span is cast to the data's dtype: only spans half precision can hold are the same span
            v = dcar(val, c, poison=POISON[len(val) % len(POISON)] if kind != "aux" else (val[0] if val and val[0] is not None else 1.0))
            if v is None:
                return None
            if func == "axds.valid_range_test" and c == "object":
                return None  # object is not a real dtype (valid_range_test takes its dtype from the array)
            if func == "axds.valid_range_test" and c in ("int16", "uint8", "int32", "int8", "int"):
                # documented: the span is cast to the data's dtype; only spans that dtype can hold are the same span
                sp = roles.get("valid_span", (None, []))[1]
                info = np.iinfo(np.int64 if c == "int" else c)
                if any(b is not None and (b != int(b) or not (info.min <= b <= info.max)) for b in sp):
                    return None
            kw[name] = v
            if func == "axds.valid_range_test" and isinstance(v, (list, tuple)):
                kw["dtype"] = np.float64
        elif kind == "time":
            kw[name] = gen.times(val, how if mine else "dt64ns")
            if kw[name] is None:
                return None  # carrier cannot represent sub-second instants
        elif kind == "timedata":
            c = how if mine else "dt64ns"
            if c.startswith("epoch"):
                return None  # numbers would be numbers, not times, to valid_range_test
            if "utc" in c:
                return None  # the statement's tz-aware carriers are *time inputs*; here the times are the data
            v = gen.times(val, c)
            kw[name] = v
            if isinstance(v, (list, tuple)) and c in ("dt64ns-scalar-list", "dt64s-scalar-tuple"):
                pass  # datetime64 scalars carry their own type: no dtype argument, the function works it out
            elif isinstance(v, list):
                if c == "pydatetime-utc":
                    return None  # np.array(aware datetimes, dtype=datetime64) is not a documented path
                kw["dtype"] = np.dtype("datetime64[ns]")
        elif kind == "timespan":
            kw[name] = tuple(np.array(val, dtype="int64").astype("datetime64[s]").astype("datetime64[ns]"))
        elif kind == "span":
            v_ = list(val)
            if REVERSE_SPANS and len(v_) == 2:
                v_ = v_[::-1]  # the two numbers of a span may come in either order, in a list as in a tuple
            kw[name] = tuple(v_) if (mine and how == "tuple") else v_
        else:
            kw[name] = val
    return kw


def long_sequences(ctx) -> None:
    """long plain sequences (lists / tuples with None or NaN) that also hold exact zeros"""
    rng = ctx.rng
    n = 10500
    x = [None if k % 97 == 5 else (0.0 if k % 11 == 0 else -0.0 if k % 13 == 0 else float((k * 7) % 9) * 0.25) for k in range(n)]
    t = gen.regular(n, 60)
    z = [float(k % 50) for k in range(n)]
    jobs = [("gross_range", "qartod.gross_range_test", {"fail_span": [-1, 2], "suspect_span": [0, 1.5]}, {}),
            ("spike", "qartod.spike_test", {"suspect_threshold": 0.5, "fail_threshold": 1.5}, {}),
            ("rate_of_change", "qartod.rate_of_change_test", {"threshold": 0.01}, {"tinp": gen.times(t)}),
            ("flat_line", "qartod.flat_line_test", {"suspect_threshold": 120, "fail_threshold": 300, "tolerance": 0.3}, {"tinp": gen.times(t)}),
            ("attenuated", "qartod.attenuated_signal_test", {"suspect_threshold": 0.8, "fail_threshold": 0.2, "test_period": 300, "min_obs": 2},
             {"tinp": gen.times(t)}),
            ("density_inversion", "qartod.density_inversion_test", {"suspect_threshold": 0.1, "fail_threshold": -0.6}, {"zinp": gen.arr(z)}),
            ("climatology", "qartod.climatology_test", {"config": [{"tspan": [1, 12], "period": "month", "vspan": [0.25, 1.5], "fspan": [0, 1.75]}]},
             {"tinp": gen.times(t), "zinp": gen.arr(z)})]
    for mode, func, params, aux in jobs:
        base = client.invoke(func, {"inp": gen.arr(x), **params, **aux})
        if base.kind != "return":
            ctx.violation(f"C15:baseline-raised:{func}:{base.exc_type}@{base.where}", {"kind": "carrier-group", "mode": mode, "case": "long sequence"})
            continue
        want = base.flags.reshape(-1).tolist()
        for how in ("list-none", "tuple-none", "list-nan", "tuple-nan", "object"):
            o = client.invoke(func, {"inp": dcar(x, how), **params, **aux})
            ctx.count("c15.members_compared")
            ctx.count("c15.long_sequence_members")
            ctx.case(f"long-sequence|{mode}|{how}")
            got = None if o.kind != "return" else o.flags.reshape(-1).tolist()
            if got != want:
                diff = [i for i in range(n) if got is None or got[i] != want[i]][:10]
                ctx.violation(f"C15:{how}:flags-differ:{func}:long-sequence",
                              {"kind": "carrier-group", "mode": mode, "carrier": how, "case": f"{n} values with None every 97th and zeros",
                               "first_differing_positions": diff, "baseline_there": [want[i] for i in diff],
                               "observed_there": None if got is None else [got[i] for i in diff], "observed": o.brief() if got is None else None})
    _ = rng


def run(ctx) -> None:
    rng = ctx.rng
    ctx.require("c15.groups", 200)
    if ctx.shard == 0:
        long_sequences(ctx)
    ctx.require("c15.members_compared", 2000)
    for _ in range(ctx.pick(45, 600)):
        for mode, func, roles in cases(rng):
            global REVERSE_SPANS
            REVERSE_SPANS = rng.random() < 0.3 and func in ("qartod.gross_range_test",)
            base_kw = build(roles, func=func)
            base = client.invoke(func, base_kw)
            ctx.count("c15.groups")
            logical = {k: core.jsonable(v[1]) for k, v in roles.items()}
            if base.kind != "return":
                ctx.violation(f"C15:baseline-raised:{func}:{base.exc_type}@{base.where}",
                              {"kind": "carrier-group", "mode": mode, "case": logical, "observed": base.brief()})
                continue
            bflags = base.flags.reshape(-1).tolist()
            variants = []
            for name, (kind, _v) in roles.items():
                if kind in ("data", "aux", "data-nomissing"):
                    variants += [(name, c) for c in DATA_CARRIERS]
                elif kind in ("time", "timedata"):
                    variants += [(name, c) for c in TIME_CARRIERS]
                elif kind == "span":
                    variants.append((name, "tuple"))
            # a mutable container that is refilled in place and passed again is just another representation of the new
            # instants: same flags as a fresh carrier of those instants
            tnames = [k for k, (kind, _v) in roles.items() if kind == "time"]
            if tnames and rng.random() < 0.5:
                tn = tnames[0]
                told = roles[tn][1]
                for how in ("dt64ns", "epoch-list", "epoch-float"):
                    kw1 = build(roles, vary=tn, how=how, func=func)
                    if kw1 is None:
                        continue
                    client.invoke(func, kw1, check_purity=False)
                    tnew = [told[0] + (v - told[0]) * 3 + 7 for v in told]  # still increasing, different spacing
                    cont = kw1[tn]
                    fresh_vals = gen.times(tnew, how)
                    if fresh_vals is None:
                        continue
                    for i_ in range(len(tnew)):
                        cont[i_] = fresh_vals[i_]
                    o_re = client.invoke(func, kw1, check_purity=False)
                    o_fr = client.invoke(func, {**kw1, tn: gen.times(tnew, "dtindex")}, check_purity=False)
                    ctx.count("c15.refilled_container_pairs")
                    a_ = None if o_re.kind != "return" else o_re.flags.reshape(-1).tolist()
                    b_ = None if o_fr.kind != "return" else o_fr.flags.reshape(-1).tolist()
                    if a_ != b_:
                        ctx.violation(f"C15:refilled-{how}-container:flags-differ:{func}",
                                      {"kind": "carrier-group", "mode": mode, "carrier": how + " (same object refilled in place)",
                                       "case": logical, "new_times": tnew, "refilled": o_re.brief(), "fresh": o_fr.brief()})
            # several inputs in the same non-default representation at once (all chunked, all pandas with unrelated row
            # labels, all masked, ...): inputs are paired by position, whatever their containers
            dnames = [k for k, (kind, _v) in roles.items() if kind in ("data", "aux", "data-nomissing")]
            joints = []
            if len(dnames) + len(tnames) >= 2:
                for dh in ("dask", "series-shifted", "series", "masked-finite", "list-none", "f32"):
                    jv = {k: dh for k in dnames}
                    for tn_ in tnames:
                        jv[tn_] = "series" if dh.startswith("series") else rng.choice(["dt64ns", "epoch-int", "dtindex"])
                    joints.append((dh, jv))
            for dh, jv in joints:
                kw = build(roles, vary=jv, func=func)
                if kw is None:
                    continue
                if dh == "series":
                    for tn_ in tnames:  # the time Series keeps the row labels of some larger frame it was cut from
                        if isinstance(kw.get(tn_), pd.Series):
                            kw[tn_] = pd.Series(kw[tn_].to_numpy(), index=range(100, 100 + len(kw[tn_])))
                o = client.invoke(func, kw)
                ctx.count("c15.members_compared")
                ctx.count("c15.joint_carrier_members")
                ctx.case(f"{mode}|joint|{dh}|{gen.flagset(o) if o.kind == 'raise' else ''.join(sorted(set(map(str, bflags))))}")
                if o.kind == "raise":
                    ctx.violation(f"C15:joint-{dh}:raised:{func}:{o.exc_type}@{o.where}",
                                  {"kind": "carrier-group", "mode": mode, "varied": jv, "carrier": "joint " + dh, "case": logical,
                                   "baseline_flags": bflags, "observed": o.brief()})
                elif o.flags.reshape(-1).tolist() != bflags or o.masked.any():
                    ctx.violation(f"C15:joint-{dh}:flags-differ:{func}",
                                  {"kind": "carrier-group", "mode": mode, "varied": jv, "carrier": "joint " + dh, "case": logical,
                                   "baseline_flags": bflags, "observed": o.brief()})
            for name, how in variants:
                kw = build(roles, vary=name, how=how, func=func)
                if kw is None:
                    continue
                o = client.invoke(func, kw)
                ctx.count("c15.members_compared")
                ctx.count(f"c15.carrier.{how}")
                fs = gen.flagset(o)
                ctx.case(f"{mode}|{name}|{how}|{fs if o.kind == 'raise' else ''.join(sorted(set(map(str, bflags))))}",
                         sample={"mode": mode, "varied": name, "carrier": how, "case": logical, "baseline_flags": bflags})
                if o.kind == "raise":
                    ctx.violation(f"C15:{how}:raised:{func}:{o.exc_type}@{o.where}",
                                  {"kind": "carrier-group", "mode": mode, "varied": name, "carrier": how, "case": logical,
                                   "baseline_flags": bflags, "observed": o.brief()})
                elif o.flags.reshape(-1).tolist() != bflags or o.masked.any():
                    ctx.violation(f"C15:{how}:flags-differ:{func}:{name}",
                                  {"kind": "carrier-group", "mode": mode, "varied": name, "carrier": how, "case": logical,
                                   "baseline_flags": bflags, "observed": o.brief()})
