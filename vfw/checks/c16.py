"""C16 — stricter thresholds never give a better flag (DESIGN §4 C16)."""
from __future__ import annotations

import numpy as np

from vfw import client, core, gen

LEVEL = "exploration"
SHARDS = {"quick": 4, "thorough": 16}
ANCHORS = [("qartod.py", "gross_range_test"), ("qartod.py", "location_test"), ("qartod.py", "spike_test"),
           ("qartod.py", "rate_of_change_test"), ("qartod.py", "flat_line_test"), ("qartod.py", "attenuated_signal_test"),
           ("qartod.py", "density_inversion_test"), ("qartod.py", "ClimatologyConfig.check"), ("argo.py", "speed_test"),
           ("axds.py", "valid_range_test")]
RULE = ("for every threshold-driven test a seeded series (dyadic values, missing values, irregular or regular time "
        "axes, tracks) is run under a loose parameter set and under one derived from it by the statement's strictness "
        "order (nested fail/suspect/valid spans and bounding boxes, smaller spike/rate/speed/hop thresholds, shorter "
        "flat-line durations and larger tolerance, larger attenuation and density thresholds, stricter inclusivity, "
        "and 'a threshold added where there was none'); thresholds are drawn from the statistics actually present so "
        "both sides of every comparison are hit.  Relation per index: severity GOOD<SUSPECT<FAIL never decreases, the "
        "UNKNOWN set and the MISSING set are identical.  distinct = (test mode, kind of strictening, loose flag set, "
        "strict flag set); trivial = both runs all GOOD.")
ASSUMPTIONS = ["pairs in which either call is rejected (e.g. suspect span not inside fail span) are skipped, not judged"]
EXHAUSTIVE_ALL = False

SEV = {1: 0, 3: 1, 4: 2}


def nest(rng, lo, hi):
    """a span nested in [lo, hi] (possibly equal, possibly degenerate)"""
    a = lo + rng.choice([0, 0, 0.25, 0.5, 1])
    b = hi - rng.choice([0, 0, 0.25, 0.5, 1])
    if a > b:
        a = b = (lo + hi) / 2
    return [a, b]


def pairs(rng):
    """yield (mode, strictening kind, func, loose kwargs, strict kwargs)"""
    n = rng.choice([1, 2, 3, 5, 8, 13])
    x = gen.series(rng, n, pmiss=rng.choice([0, 0.15]))
    t = gen.irregular(rng, n, steps=(1, 60, 61, 3600)) if rng.random() < 0.5 else gen.regular(n, rng.choice([1, 60]))
    X, Tm = gen.carried(rng, x, poisons=(0.0, -3.0, 50.0, 2.5), p_list=0.0), gen.times(t)
    # gross range
    lo, hi = sorted((gen.dyadic(rng), gen.dyadic(rng)))
    fl = [lo - 1, hi + 1]
    sl = rng.choice([None, [lo, hi]])
    fs = nest(rng, *fl)
    if sl is None:
        ss = rng.choice([None, nest(rng, *fs)])
        kind = "add-suspect" if ss is not None else "nest-fail"
    else:
        ss = nest(rng, max(sl[0], fs[0]), min(sl[1], fs[1])) if max(sl[0], fs[0]) <= min(sl[1], fs[1]) else None
        kind = "nest-both"
        if ss is None:
            sl = None
            kind = "nest-fail"
    def maybe_rev(sp):
        return sp if (sp is None or rng.random() < 0.7) else (tuple(sp[::-1]) if rng.random() < 0.5 else list(sp[::-1]))
    yield ("gross_range", kind, "qartod.gross_range_test", {"inp": X, "fail_span": maybe_rev(fl), "suspect_span": maybe_rev(sl)},
           {"inp": X, "fail_span": maybe_rev(fs), "suspect_span": maybe_rev(ss)})
    # valid range
    vl = (rng.choice([None, lo]), rng.choice([None, hi]))
    vs = (lo + rng.choice([0, 0.5]) if vl[0] is not None or rng.random() < 0.5 else None,
          hi - rng.choice([0, 0.5]) if vl[1] is not None or rng.random() < 0.5 else None)
    if vs[0] is not None and vs[1] is not None and vs[0] > vs[1]:
        m = vs[1] if vl[0] is None else max(vs[1], vl[0])  # degenerate span that is still nested in the loose one
        vs = (m, m)
    il = (rng.random() < 0.7, rng.random() < 0.5)
    is_ = (il[0] and rng.random() < 0.6, il[1] and rng.random() < 0.6)
    yield ("valid_range", "nest-span/inclusivity", "axds.valid_range_test",
           {"inp": X, "valid_span": vl, "start_inclusive": il[0], "end_inclusive": il[1]},
           {"inp": X, "valid_span": vs, "start_inclusive": is_[0], "end_inclusive": is_[1]})
    # spike
    from vfw import models

    for meth in ("average", "differential"):
        ds = sorted({models.spike_d(x[k - 1], x[k], x[k + 1], meth) for k in range(1, n - 1)
                     if None not in (x[k - 1], x[k], x[k + 1])}) or [1.0]
        pool = [0, *ds, *(d + 0.25 for d in ds)]
        sL, fL = rng.choice([None, *pool]), rng.choice([None, *pool])
        sS = rng.choice([v for v in pool if sL is None or v <= sL] + ([None] if sL is None else []))
        fS = rng.choice([v for v in pool if fL is None or v <= fL] + ([None] if fL is None else []))
        yield (f"spike-{meth}", "smaller/added thresholds", "qartod.spike_test",
               {"inp": X, "suspect_threshold": sL, "fail_threshold": fL, "method": meth},
               {"inp": X, "suspect_threshold": sS, "fail_threshold": fS, "method": meth})
    # rate of change
    rates = sorted({abs(x[k] - x[k - 1]) / (t[k] - t[k - 1]) for k in range(1, n) if None not in (x[k], x[k - 1])}) or [1.0]
    thL = rng.choice([*rates, rates[-1] * 2, 0])
    thS = rng.choice([r for r in [0, *rates, thL] if r <= thL])
    yield ("rate_of_change", "smaller threshold", "qartod.rate_of_change_test", {"inp": X, "tinp": Tm, "threshold": thL},
           {"inp": X, "tinp": Tm, "threshold": thS})
    # flat line (regular axis)
    D = rng.choice([1, 60])
    Tr = gen.times(gen.regular(n, D))
    durs = [0, D, 2 * D, 3 * D, 5 * D, (n + 1) * D, int(2.5 * D)]
    sL, fL = rng.choice(durs), rng.choice(durs)
    sS, fS = rng.choice([d for d in durs if d <= sL]), rng.choice([d for d in durs if d <= fL])
    tols = [0, 0.25, 0.5, 1, 2.5, 10]
    tolL = rng.choice(tols)
    tolS = rng.choice([v for v in tols if v >= tolL])
    yield ("flat_line", "shorter durations / larger tolerance", "qartod.flat_line_test",
           {"inp": X, "tinp": Tr, "suspect_threshold": sL, "fail_threshold": fL, "tolerance": tolL},
           {"inp": X, "tinp": Tr, "suspect_threshold": sS, "fail_threshold": fS, "tolerance": tolS})
    if n >= 3:
        # decimal tolerances on either side of a power of ten, a wiggle just under the smaller one: the larger tolerance
        # (stricter) still calls that stretch flat
        unit = rng.choice([0.01, 0.1, 1.0, 10.0])
        base_ = rng.choice([5.0, 20.0, -3.0])
        xw = [base_ + (0.96 * unit if k % 2 else 0.0) for k in range(n)]
        tolL, tolS = rng.choice([(0.97 * unit, unit), (0.97 * unit, 1.5 * unit), (0.965 * unit, 0.99 * unit)])
        dS = rng.choice([D, 2 * D])
        yield ("flat_line", "larger decimal tolerance", "qartod.flat_line_test",
               {"inp": gen.arr(xw), "tinp": Tr, "suspect_threshold": dS, "fail_threshold": 2 * dS, "tolerance": tolL},
               {"inp": gen.arr(xw), "tinp": Tr, "suspect_threshold": dS, "fail_threshold": 2 * dS, "tolerance": tolS})
    if n >= 5:
        # the same on an irregular axis (an outage, then samples closer together than the usual step): a longer duration is a
        # longer window, nothing else
        ti = [t[0]]
        for k in range(1, n):
            ti.append(ti[-1] + (D * 9 if k == n // 2 else D // 2 if (k > n // 2 and D > 1) else D))
        flat = [5.0] * n
        dL_, dS_ = rng.choice([(3 * D, D), (4 * D, 2 * D), (2 * D, D)])
        yield ("flat_line", "shorter durations (irregular axis)", "qartod.flat_line_test",
               {"inp": gen.arr(flat), "tinp": gen.times(ti), "suspect_threshold": dL_, "fail_threshold": 2 * dL_, "tolerance": 0.5},
               {"inp": gen.arr(flat), "tinp": gen.times(ti), "suspect_threshold": dS_, "fail_threshold": 2 * dS_, "tolerance": 0.5})
    if n >= 3:
        # hourly data, durations of a day and more against durations under a day
        th = gen.regular(72, 3600)
        stuck = rng.choice([8, 14, 26])
        xh = [3.0 + (k % 5) for k in range(20)] + [7.0] * stuck + [3.0 + (k % 4) for k in range(52 - stuck)]
        sus_, fL_, fS_ = rng.choice([(12, 30, 20), (12, 49, 23), (10, 25, 24), (30, 49, 49), (26, 60, 30)])
        susS_ = sus_ if sus_ <= 12 else rng.choice([10, sus_])
        yield ("flat_line", "durations around one day", "qartod.flat_line_test",
               {"inp": gen.arr(xh), "tinp": gen.times(th), "suspect_threshold": sus_ * 3600, "fail_threshold": fL_ * 3600, "tolerance": 0.5},
               {"inp": gen.arr(xh), "tinp": gen.times(th), "suspect_threshold": susS_ * 3600, "fail_threshold": fS_ * 3600, "tolerance": 0.5})
    # attenuated signal
    ths = [0, 0.1, 0.25, 0.5, 1, 2, 5]
    for kind in ("std", "range"):
        sL, fL = rng.choice(ths), rng.choice(ths)
        sS, fS = rng.choice([v for v in ths if v >= sL]), rng.choice([v for v in ths if v >= fL])
        extra = rng.choice([{}, {"test_period": rng.choice([D * 2, D * 3 + 1]), "min_obs": rng.choice([1, 2])}])
        yield (f"attenuated-{kind}{'-window' if extra else ''}", "larger thresholds", "qartod.attenuated_signal_test",
               {"inp": X, "tinp": Tr, "suspect_threshold": sL, "fail_threshold": fL, "check_type": kind, **extra},
               {"inp": X, "tinp": Tr, "suspect_threshold": sS, "fail_threshold": fS, "check_type": kind, **extra})
    # density inversion
    z = [None if rng.random() < 0.1 else float(rng.choice([k, k, n - k, 3])) for k in range(n)]
    ths = [None, -1, -0.5, -0.25, 0, 0.25, 0.5, 1]
    sL, fL = rng.choice(ths), rng.choice(ths)
    sS = rng.choice([v for v in ths if v is not None and (sL is None or v >= sL)] + ([None] if sL is None else []))
    fS = rng.choice([v for v in ths if v is not None and (fL is None or v >= fL)] + ([None] if fL is None else []))
    yield ("density_inversion", "larger/added thresholds", "qartod.density_inversion_test",
           {"inp": X, "zinp": gen.arr(z), "suspect_threshold": sL, "fail_threshold": fL},
           {"inp": X, "zinp": gen.arr(z), "suspect_threshold": sS, "fail_threshold": fS})
    # location / speed
    lon = [None if rng.random() < 0.08 else 10.0 + 0.25 * rng.randrange(0, 12) for _ in range(n)]
    lat = [None if rng.random() < 0.08 else 50.0 + 0.125 * rng.randrange(0, 12) for _ in range(n)]
    hops = sorted({models.geodist(lat[k - 1], lon[k - 1], lat[k], lon[k]) for k in range(1, n)
                   if None not in (lon[k], lat[k], lon[k - 1], lat[k - 1])}) or [1000.0]
    boxL = [10.0 + rng.choice([0, 0, 0.5, 1.25]), 50.0 + rng.choice([0, 0, 0.25]), 13.0 - rng.choice([0, 0, 1, 1.75]),
            51.5 - rng.choice([0, 0, 0.5])]  # the loose box may already leave positions outside (FAIL)
    boxS = [boxL[0] + rng.choice([0, 0.25, 0.5]), boxL[1] + rng.choice([0, 0.125, 0.5]), boxL[2] - rng.choice([0, 0.25, 0.5]),
            boxL[3] - rng.choice([0, 0.125, 0.5])]
    if boxS[0] > boxS[2]:
        boxS[0] = boxS[2] = (boxL[0] + boxL[2]) / 2
    if boxS[1] > boxS[3]:
        boxS[1] = boxS[3] = (boxL[1] + boxL[3]) / 2
    rL = rng.choice([None, *(h * 1.001 for h in hops), hops[-1] * 2])
    rS = rng.choice([h * f for h in hops for f in (0.5, 0.999) if rL is None or h * f <= rL] or [rL if rL is not None else 0.0])
    if rL is None and rng.random() < 0.4:
        rS = None
    yield ("location", "nested box / smaller or added range_max", "qartod.location_test",
           {"lon": gen.arr(lon), "lat": gen.arr(lat), "bbox": boxL, "range_max": rL},
           {"lon": gen.arr(lon), "lat": gen.arr(lat), "bbox": boxS, "range_max": rS})
    sp = sorted({models.geodist(lat[k - 1], lon[k - 1], lat[k], lon[k]) / (t[k] - t[k - 1]) for k in range(1, n)
                 if None not in (lon[k], lat[k], lon[k - 1], lat[k - 1])}) or [1.0]
    pool = [0, *(s * f for s in sp for f in (0.5, 0.999, 1.001, 2))]
    sL, fL = rng.choice(pool), rng.choice(pool)
    sS, fS = rng.choice([v for v in pool if v <= sL]), rng.choice([v for v in pool if v <= fL])
    yield ("speed", "smaller thresholds", "argo.speed_test",
           {"lon": gen.arr(lon), "lat": gen.arr(lat), "tinp": Tm, "suspect_threshold": sL, "fail_threshold": fL},
           {"lon": gen.arr(lon), "lat": gen.arr(lat), "tinp": Tm, "suspect_threshold": sS, "fail_threshold": fS})
    # climatology: nested vspan / fspan of the same members
    vL = sorted((gen.dyadic(rng), gen.dyadic(rng)))
    fLs = [vL[0] - 2, vL[1] + 2]
    hasf = rng.random() < 0.6
    memL = {"tspan": [1, 12], "period": "month", "vspan": vL, **({"fspan": fLs} if hasf else {}),
            **({"zspan": [0, 3]} if rng.random() < 0.4 else {})}
    memS = dict(memL, vspan=nest(rng, *vL), **({"fspan": nest(rng, *fLs)} if hasf else {}))
    zz = gen.arr([None if rng.random() < 0.1 else float(k % 5) for k in range(n)])
    yield ("climatology", "nested vspan/fspan", "qartod.climatology_test",
           {"config": [memL], "inp": X, "tinp": Tm, "zinp": zz}, {"config": [memS], "inp": X, "tinp": Tm, "zinp": zz})
    if n >= 2:
        # two members over the two halves of the record; the stricter config gives the second one a fail span too (and
        # may tighten the first one's): each member fails values by ITS OWN fail span only
        iso = lambda s_: str(gen.times([s_], "dt64s")[0])  # noqa: E731
        tmid = t[n // 2 - 1] if n // 2 >= 1 else t[0]
        v1, v2 = sorted((gen.dyadic(rng), gen.dyadic(rng))), sorted((gen.dyadic(rng), gen.dyadic(rng)))
        f1 = [v1[0] - rng.choice([0, 0.5]), v1[1] + rng.choice([0, 0.5])]
        m1 = {"tspan": [iso(t[0]), iso(tmid)], "vspan": v1, "fspan": f1}
        m2 = {"tspan": [iso(tmid + 1), iso(t[-1] + 1)], "vspan": v2}
        m2s = dict(m2, fspan=[v2[0] - rng.choice([0, 1, 8]), v2[1] + rng.choice([0, 1, 8])])
        m1s = dict(m1, fspan=nest(rng, *f1)) if rng.random() < 0.5 else m1
        if min(m1s["fspan"]) <= v1[0] and max(m1s["fspan"]) >= v1[1]:
            order = rng.random() < 0.5
            yield ("climatology", "second member gains a fail span", "qartod.climatology_test",
                   {"config": [m1, m2] if order else [m2, m1], "inp": X, "tinp": Tm, "zinp": zz},
                   {"config": [m1s, m2s] if order else [m2s, m1s], "inp": X, "tinp": Tm, "zinp": zz})


def long_record_pair():
    """a 70001-row record with flat episodes across rows 2^15 and 2^16: stricter (shorter) durations flag at least what
    looser ones flag, wherever a blocked evaluation would cut"""
    n = 70001
    x = [float(k % 9) for k in range(n)]
    for b in (32768, 65536):
        for k in range(b - 6, b + 7):
            x[k] = 500.0
    t = gen.times(gen.regular(n, 60))
    return [("flat_line", f"shorter durations (70001 rows, {a_}->{b_} s)", "qartod.flat_line_test",
             {"inp": gen.arr(x), "tinp": t, "suspect_threshold": a_, "fail_threshold": 6000, "tolerance": 0.5},
             {"inp": gen.arr(x), "tinp": t, "suspect_threshold": b_, "fail_threshold": 6000, "tolerance": 0.5})
            for a_, b_ in ((240, 180), (180, 120), (420, 180), (300, 240))]


def run(ctx) -> None:
    rng = ctx.rng
    ctx.require("c16.pairs_judged", 2000)
    ctx.require("c16.pairs_where_strict_is_worse_somewhere", 200)
    extra_pairs = long_record_pair() if ctx.shard == 0 else []
    for it_ in range(ctx.pick(900, 6000)):
        for mode, kind, func, loose, strict in (list(pairs(rng)) + (extra_pairs if it_ == 0 else [])):
            a = client.invoke(func, loose)
            b = client.invoke(func, strict)
            if a.kind != "return" or b.kind != "return":
                ctx.count("c16.pairs_skipped_rejected")
                continue
            ctx.count("c16.pairs_judged")
            fa, fb = a.flags.reshape(-1).tolist(), b.flags.reshape(-1).tolist()
            if fa != fb:
                ctx.count("c16.pairs_where_strict_is_worse_somewhere")
            ctx.case(f"{mode}|{kind}|{''.join(map(str, sorted(set(fa))))}->{''.join(map(str, sorted(set(fb))))}",
                     trivial=set(fa) <= {1} and set(fb) <= {1},
                     sample={"mode": mode, "strictening": kind, "loose": core.jsonable(loose),
                             "strict": core.jsonable(strict), "loose_flags": fa, "strict_flags": fb})
            bad = None
            for i, (p, q) in enumerate(zip(fa, fb)):
                if (p in (2, 9)) or (q in (2, 9)):
                    if p != q:
                        bad = (i, "UNKNOWN/MISSING set changed")
                        break
                elif SEV[q] < SEV[p]:
                    bad = (i, "flag became less severe")
                    break
            if bad or len(fa) != len(fb):
                ctx.violation(f"C16:{mode}:{bad[1] if bad else 'length'}",
                              {"kind": "pair", "func": func, "strictening": kind, "loose": core.jsonable(loose),
                               "strict": core.jsonable(strict), "loose_flags": fa, "strict_flags": fb,
                               "index": bad[0] if bad else None})
    _ = np
