"""C18 — a failing test drops out alone (DESIGN §4 C18): fault-injection differential."""
from __future__ import annotations

import copy

import numpy as np

from vfw import core, plumbing as P

LEVEL = "fault_enumeration"
SHARDS = {"quick": 4, "thorough": 16}
ANCHORS = [("config.py", "Call.run"), ("config.py", "ContextConfig.__init__"), ("results.py", "collect_results_list"),
           ("results.py", "collect_results_dict"), ("streams.py", "PandasStream.run"), ("streams.py", "NumpyStream.run"),
           ("streams.py", "XarrayStream.run"), ("streams.py", "NetcdfStream.run")]
RULE = ("healthy configs of 1..3 tests (probe, gross range, spike, valid range; 1-2 streams, 1-2 contexts with windows) "
        "x every fault kind {unknown module, unknown test, malformed span, suspect span outside fail span, missing "
        "required parameter, unknown method/check_type, bad bbox, bad climatology member, time-needing test on a "
        "source without time, depth-needing test without depth, position test without lat/lon, absent stream id, "
        "'aggregate' listed as a test, probe raising each of 8 exception types} x every position (before / between / "
        "after the healthy tests of a stream, in another stream, in another context) x 1..3 simultaneous faults x "
        "every front end.  Oracle: run completes, the failing entry yields no result, every healthy (stream, test) "
        "collects (list and dict) to exactly what it gives without the faults and when configured alone.  distinct = "
        "(front end, fault kind, position, number of faults, healthy set); every case is non-trivial.")
ASSUMPTIONS = ["an existing non-test attribute used as a test name (e.g. qartod.FLAGS) is not an 'unknown name' and is out of scope",
               "NumpyStream with a bare array and QcConfig.run ignore stream ids, so 'absent stream id' is not injected there"]
EXHAUSTIVE_ALL = False

HEALTHY = {
    "probe": ("qartod", "vf_probe_test", {"tag": 3}),
    "gross": ("qartod", "gross_range_test", {"fail_span": [1001, 2006], "suspect_span": [1002, 2004]}),
    "spike": ("qartod", "spike_test", {"suspect_threshold": 0.5, "fail_threshold": 1.5}),
    "valid": ("axds", "valid_range_test", {"valid_span": [1001, 2004]}),
}
RAISE_KINDS = ["ValueError", "TypeError", "KeyError", "IndexError", "ZeroDivisionError", "AssertionError",
               "RuntimeError", "FloatingPointError"]
# name -> (module, test, kwargs, table requirement)
FAULTS = {
    "unknown-module": ("nosuchmodule", "foo_test", {"x": 1}, None),
    "unknown-test": ("qartod", "no_such_test", {"x": 1}, None),
    "unknown-module-dotted": ("nope.sub", "foo_test", {"x": 1}, None),
    "unknown-module-dotted-known-prefix": ("qartod.v2", "spike_test", {"suspect_threshold": 1}, None),
    "unknown-module-named-like-stdlib-math": ("math", "log", {}, None),
    "unknown-module-named-like-stdlib-time": ("time", "time", {}, None),
    "unknown-module-named-like-numpy": ("numpy", "maximum", {}, None),
    "unknown-module-named-like-os": ("os", "getcwd", {}, None),
    "rejected-uncopyable-param": ("qartod", "location_test", {"bbox": "GENERATOR"}, None),
    "unknown-test-argo": ("argo", "gross_range_test", {"fail_span": [0, 1]}, None),
    # a name that is a real test's name minus its "_test" suffix is an unknown name like any other
    "unknown-test-name-without-suffix": ("qartod", "gross_range", {"fail_span": [0, 1], "suspect_span": [0, 1]}, None),
    "unknown-test-name-without-suffix-2": ("qartod", "spike", {"suspect_threshold": 0.001, "fail_threshold": 0.002}, None),
    "malformed-span": ("qartod", "climatology_test", {"config": [{"tspan": [0, 1, 2], "vspan": [0, 1], "period": "month"}]}, None),
    "suspect-outside-fail": ("qartod", "location_test", {"bbox": [0, 0, 1]}, None),
    "missing-required-param": ("qartod", "rate_of_change_test", {}, None),
    "unknown-check-type": ("qartod", "attenuated_signal_test", {"suspect_threshold": 1, "fail_threshold": 0.5,
                                                               "check_type": "nope"}, None),
    "missing-required-params-flat-line": ("qartod", "flat_line_test", {"tolerance": 1}, None),
    "needs-time": ("qartod", "rate_of_change_test", {"threshold": 0.5}, "no-time"),
    "needs-depth": ("qartod", "density_inversion_test", {"suspect_threshold": 1}, "no-z"),
    "needs-position": ("argo", "speed_test", {"suspect_threshold": 1, "fail_threshold": 2}, "no-pos"),
    "aggregate-as-test": ("qartod", "aggregate", {}, None),
    **{f"raise-{k}": ("qartod", "vf_raise_test", {"kind": k}, None) for k in RAISE_KINDS},
    # the SAME test as a healthy one, unusable in another context (handled specially: always placed in its own context)
    "same-test-bad-params-elsewhere": ("qartod", "gross_range_test", {"fail_span": [0, 1, 2]}, None),
    "same-test-missing-params-elsewhere": ("qartod", "spike_test", {"method": "nope"}, None),
    # failing entries whose own parameters are objects (a test that cannot run may be configured with anything)
    "raise-with-object-params": ("qartod", "vf_raise_test", {"kind": "ValueError", "note": {1, 2}, "where": __import__("pathlib").Path("/x"),
                                                             "s": __import__("pandas").Series([1.0]), "r": range(3)}, None),
    "climatology-object-needs-time": ("qartod", "climatology_test", {"config": "CLIMOBJ"}, "no-time"),
}


def snapshot(res):
    """(list form, dict form) of a run as plain python, keyed by (stream, module, test)."""
    from ioos_qc.results import collect_results

    out = {}
    cl = collect_results(list(res), how="list")
    for cr in cl:
        d, m = np.ma.getdata(cr.results), np.ma.getmaskarray(cr.results)
        out[("list", cr.stream_id, cr.package, cr.test)] = [None if m[i] else int(d[i]) for i in range(len(d))]
        # the collected data / axis arrays belong to the result as well
        for name in ("data", "tinp", "zinp", "lat", "lon"):
            a = getattr(cr, name)
            if a is None:
                continue
            ad, am = np.ma.getdata(a), np.ma.getmaskarray(a)
            if ad.dtype.kind == "M":
                ad = ad.astype("datetime64[s]").astype("int64")
            out[("list-" + name, cr.stream_id, cr.package, cr.test)] = [
                None if (am[i] or ad[i] != ad[i]) else float(ad[i]) for i in range(ad.shape[0])] if ad.ndim == 1 else repr(ad.shape)
    cd = collect_results(list(res), how="dict")
    for sid, mods in cd.items():
        for mod, tests in mods.items():
            for t, arr in tests.items():
                out[("dict", sid, mod, t)] = np.ma.getdata(arr).astype(int).tolist()
    return out


def run_cfg(fe, tb, contexts, scratch, opts=None):
    cfgd = P.build_config(contexts)
    if fe == "qcconfig":
        cfgd = {"contexts": [{**c, "streams": {"_stream": next(iter(c["streams"].values()))}} for c in cfgd["contexts"]
                             if c["streams"]]}
        if len(cfgd["contexts"]) == 1 and "window" not in cfgd["contexts"][0] and "region" not in cfgd["contexts"][0]:
            # the classic single-stream layout: a bare {package: {test: parameters}} mapping
            cfgd = cfgd["contexts"][0]["streams"]["_stream"]
    res, err = P.run_frontend(fe, tb, cfgd, scratch, opts or {})
    if err is not None:
        return None, err
    if fe == "qcconfig":
        out = {}
        for mod, tests in res.items():
            for t, arr in tests.items():
                out[("dict", "_stream", mod, t)] = np.ma.getdata(arr).astype(int).tolist()
        return out, None
    try:
        return snapshot(res), None
    except Exception as e:  # noqa: BLE001
        return None, e


def run(ctx) -> None:
    rng = ctx.rng
    ctx.require("c18.fault_runs", 300)
    ctx.require("c18.survivors_compared", 300)
    ctx.require("c18.alone_runs", 100)
    P.install_probes()
    scratch = P.Scratch()
    fes = ["pandas", "numpy-dict", "numpy-array", "xarray-ds", "xarray-file", "netcdf-ds", "netcdf-file", "qcconfig"]
    for fe in fes:
        ctx.require(f"c18.fault_runs.{fe}", 10)
    try:
        i = 0
        fault_names = sorted(FAULTS) + ["absent-stream"]
        for fname in fault_names:
            for pos in ("before", "between", "after", "other-stream", "other-context"):
                for fe in fes:
                    for hk in (["probe"], ["probe", "gross"], ["gross", "spike", "valid"]) * ctx.pick(1, 5):
                        i += 1
                        if not ctx.mine(i * 7 + i // 8):
                            continue
                        if not ctx.thorough and rng.random() < 0.5:
                            continue
                        single = fe in ("numpy-array", "qcconfig")
                        if fname == "absent-stream" and single:
                            continue
                        if pos == "other-stream" and single:
                            continue
                        req = None if fname == "absent-stream" else FAULTS[fname][3]
                        n = rng.choice([3, 5, 8])
                        streams = ["v1"] if single else ["v1", "v2"]
                        tb = P.Table(n, streams=streams, with_time=req != "no-time", with_z=req != "no-z",
                                     with_pos=req != "no-pos")
                        lay = P.window_layouts(tb) if tb.with_time else [(None, None)]
                        w1 = rng.choice(lay)
                        if fe == "qcconfig" and rng.random() < 0.5:
                            w1 = (None, None)
                        w2 = rng.choice([w for w in lay if w != w1] or [w1])
                        healthy = [HEALTHY[k] for k in hk]
                        base = [{"window": w1, "streams": {"v1": list(healthy)}}]
                        if rng.random() < 0.5 and w2 != w1 and not (fe == "qcconfig" and w1 == (None, None)):
                            base.append({"window": w2, "streams": {streams[-1]: [HEALTHY["probe"]]}})
                        nfaults = rng.choice([1, 1, 2, 3])
                        faulty = copy.deepcopy(base)
                        injected = []
                        for k in range(nfaults):
                            fn = fname if k == 0 else rng.choice(fault_names)
                            if fn == "absent-stream" and single:
                                fn = "unknown-test"
                            if fn != "absent-stream" and FAULTS[fn][3] not in (None, req):
                                fn = "unknown-test"  # needs a table the first fault does not provide
                            p = pos if k == 0 else rng.choice(["before", "between", "after"])
                            if fn == "absent-stream":
                                faulty[0]["streams"] = {**({"ghost": [HEALTHY["probe"], HEALTHY["gross"]]} if p == "before" else {}),
                                                        **faulty[0]["streams"],
                                                        **({"ghost": [HEALTHY["probe"], HEALTHY["gross"]]} if p != "before" else {})}
                                injected.append((fn, p))
                                continue
                            entry = FAULTS[fn][:3]
                            if entry[2].get("bbox") == "GENERATOR":
                                import threading
                                entry = (entry[0], entry[1], {"bbox": (v for v in [0, 0, 1, 1]), "range_max": threading.Lock()})
                            if entry[2].get("config") == "CLIMOBJ":
                                import ioos_qc.qartod as _q
                                co = _q.ClimatologyConfig()
                                co.add(tspan=[1, 12], period="month", vspan=[0, 5000])
                                entry = (entry[0], entry[1], {"config": co})
                            if fn.startswith("same-test-"):
                                # its own context with its own window, listed before or after the healthy contexts
                                wx = (tb.secs[0] - 50 - k, tb.secs[0] - 40) if not tb.with_time else rng.choice(
                                    [w for w in lay if w not in (w1, w2)] or [(tb.secs[0] - 50 - k, tb.secs[0] - 40)])
                                if rng.random() < 0.4:
                                    wx = w1  # listed as a separate context entry with the same window: grouped with the healthy one
                                newc = {"window": wx, "streams": {"v1": [entry]}}
                                if p in ("before", "other-context"):
                                    faulty.insert(0, newc)
                                else:
                                    faulty.append(newc)
                                injected.append((fn, "own-context-" + ("first" if p in ("before", "other-context") else "last")))
                                continue
                            if any(entry[1] == t[1] and entry[0] == t[0] for c in faulty for ts_ in c["streams"].values() for t in ts_):
                                continue
                            if p == "other-context":
                                faulty.append({"window": w2 if w2 != w1 else (tb.secs[0] - 99, tb.secs[0] - 98),
                                               "streams": {"v1": [entry]}})
                            elif p == "other-stream":
                                faulty[0]["streams"].setdefault(streams[-1], [])
                                faulty[0]["streams"][streams[-1]] = [entry, *faulty[0]["streams"][streams[-1]]]
                            else:
                                tests = faulty[0]["streams"]["v1"]
                                at = 0 if p == "before" else len(tests) if p == "after" else max(1, len(tests) // 2)
                                tests.insert(at, entry)
                            injected.append((fn, p))
                        if not injected:
                            continue
                        # an other-context fault with the same window as an existing context merges into it: fine.
                        wb = {"kind": "fault-run", "frontend": fe, "table": tb.describe(), "faults": injected,
                              "healthy_config": core.jsonable(base), "faulty_config": core.jsonable(faulty)}
                        ref, err0 = run_cfg(fe, tb, base, scratch)
                        if err0 is not None:
                            ctx.violation(f"C18:{fe}:healthy-run-raised:{type(err0).__name__}", {**wb, "error": repr(err0)[:300]})
                            continue
                        got, err = run_cfg(fe, tb, faulty, scratch)
                        ctx.count("c18.fault_runs")
                        ctx.count(f"c18.fault_runs.{fe}")
                        kinds = "+".join(sorted({f for f, _ in injected}))
                        ctx.case(f"{fe}|{injected[0][0]}|{injected[0][1]}|k{len(injected)}|{'+'.join(hk)}",
                                 sample={"frontend": fe, "faults": injected, "faulty_config": core.jsonable(faulty)})
                        if err is not None:
                            ctx.violation(f"C18:{fe}:run-did-not-complete:{injected[0][0]}:{type(err).__name__}@{P.client_where(err)}",
                                          {**wb, "error": repr(err)[:300]})
                            continue
                        # 1. failing entries contribute no result
                        bad = [k for k in got if k not in ref]
                        if bad:
                            ctx.violation(f"C18:{fe}:failing-test-produced-a-result:{kinds}",
                                          {**wb, "unexpected_results": [list(map(str, k)) for k in bad]})
                        # 2. survivors identical
                        for k, v in ref.items():
                            ctx.count("c18.survivors_compared")
                            if got.get(k) != v:
                                ctx.violation(f"C18:{fe}:healthy-result-disturbed:{kinds}",
                                              {**wb, "result": list(map(str, k)), "without_faults": v,
                                               "with_faults": got.get(k)})
                                break
                        # 3. configured alone (first context's healthy tests, one at a time)
                        if rng.random() < 0.34:
                            for h in healthy:
                                alone, erra = run_cfg(fe, tb, [{"window": w1, "streams": {"v1": [h]}}], scratch)
                                ctx.count("c18.alone_runs")
                                if erra is not None:
                                    continue
                                # other contexts may also write this test (probe on the same stream): compare rows of w1
                                mask = tb.rows_in(w1)
                                for form in ("list", "dict"):
                                    key = (form, "v1" if fe != "qcconfig" else "_stream", h[0], h[1])
                                    if key not in alone or key not in got:
                                        if (key in alone) != (key in got):
                                            ctx.violation(f"C18:{fe}:alone-vs-faulty-result-set", {**wb, "result": list(map(str, key))})
                                        continue
                                    a = [alone[key][r] for r in range(tb.n) if mask[r]]
                                    g = [got[key][r] for r in range(tb.n) if mask[r]]
                                    multi = sum(1 for c in faulty if any(t[1] == h[1] for t in c["streams"].get("v1", []))) > 1
                                    if a != g and not multi:
                                        ctx.violation(f"C18:{fe}:differs-from-alone-run:{kinds}",
                                                      {**wb, "result": list(map(str, key)), "alone": a, "with_faults": g})
        # ---- xarray: variables on different dimensions of different sizes; a test whose stream does not come with a required
        #      input (position, time, depth) drops out, also right after a stream of the same context that does come with it
        import xarray as xr  # noqa: PLC0415

        for it in range(ctx.pick(40, 200)):
            if not ctx.mine(it):
                continue
            nt, ns_ = rng.choice([(8, 3), (5, 7), (4, 2)])
            tb = P.Table(nt, streams=("v1",))
            ds = xr.Dataset({"v1": ("time", tb.data["v1"]), "b": ("station", np.array([2000.0 + k for k in range(ns_)]))},
                            coords={"time": tb.time, "lat": ("time", tb.lat), "lon": ("time", tb.lon), "z": ("time", tb.z)})
            hv1 = [HEALTHY["gross"], ("qartod", "location_test", {"bbox": [-180, -90, 180, 90]}), HEALTHY["spike"]][: rng.choice([1, 2, 3])]
            hb = [("qartod", "gross_range_test", {"fail_span": [1999, 2004], "suspect_span": [2000, 2003]})]
            fault = rng.choice([("qartod", "location_test", {"bbox": [-180, -90, 180, 90]}), ("qartod", "rate_of_change_test", {"threshold": 0.5}),
                                ("qartod", "density_inversion_test", {"suspect_threshold": 1}),
                                ("argo", "speed_test", {"suspect_threshold": 1, "fail_threshold": 2})])
            fb = list(hb)
            fb.insert(rng.choice([0, 1]), fault)
            order = rng.choice([("v1", "b"), ("b", "v1")])
            mk = lambda tests_b: P.build_config([{"window": (None, None), "streams": {k: (hv1 if k == "v1" else tests_b) for k in order}}])  # noqa: E731
            from ioos_qc.config import Config  # noqa: PLC0415
            from ioos_qc.streams import XarrayStream  # noqa: PLC0415
            wb = {"kind": "fault-run", "frontend": "xarray-ds (two dimensions)", "time_rows": nt, "station_rows": ns_, "stream_order": list(order),
                  "healthy_v1": core.jsonable(hv1), "stream_b_tests": core.jsonable(fb), "fault": core.jsonable(fault)}
            try:
                ref = snapshot(list(XarrayStream(ds).run(Config(mk(hb)))))
            except Exception as e:  # noqa: BLE001
                ctx.violation(f"C18:xarray-2dims:healthy-run-raised:{type(e).__name__}", {**wb, "error": repr(e)[:300]})
                continue
            ctx.count("c18.fault_runs")
            ctx.count("c18.xarray_two_dimension_runs")
            ctx.case(f"xarray-2dims|{fault[1]}|{order[0]}-first|nt{nt}ns{ns_}")
            try:
                got = snapshot(list(XarrayStream(ds).run(Config(mk(fb)))))
            except Exception as e:  # noqa: BLE001
                ctx.violation(f"C18:xarray-2dims:run-did-not-complete:{fault[1]}:{type(e).__name__}@{P.client_where(e)}", {**wb, "error": repr(e)[:300]})
                continue
            if got != ref:
                ctx.violation(f"C18:xarray-2dims:results-differ-from-healthy-run:{fault[1]}",
                              {**wb, "only_with_fault": [list(map(str, k)) for k in got if k not in ref],
                               "disturbed": [list(map(str, k)) for k in ref if got.get(k) != ref[k]][:5]})
        # ---- pandas / numpy: a configured stream whose column holds text (a notes column, ids): its tests raise on the data and
        #      drop out; everything else is what it is without that entry
        from ioos_qc.config import Config as _Config  # noqa: PLC0415
        from ioos_qc.streams import NumpyStream as _NS, PandasStream as _PS  # noqa: PLC0415

        for it in range(ctx.pick(30, 150)):
            if not ctx.mine(it):
                continue
            n = rng.choice([3, 5, 8])
            tb = P.Table(n, streams=("v1",))
            w = rng.choice([w_ for w_ in P.window_layouts(tb) if tb.rows_in(w_).any()])  # (on zero rows there is no text to choke on)
            healthy = [HEALTHY[k] for k in rng.choice([["probe"], ["probe", "gross"], ["gross", "spike", "valid"]])]
            text = [f"note {k}" for k in range(n)]
            bad_tests = rng.sample([HEALTHY["gross"], HEALTHY["spike"], ("qartod", "flat_line_test", {"suspect_threshold": 60, "fail_threshold": 120, "tolerance": 1})],
                                   rng.choice([1, 2]))
            order = rng.choice([("v1", "notes"), ("notes", "v1")])
            base_c = [{"window": w, "streams": {"v1": healthy}}]
            faulty_c = [{"window": w, "streams": {k: (healthy if k == "v1" else bad_tests) for k in order}}]
            fe = rng.choice(["pandas", "numpy-dict"])
            def run_text(ctxs):
                cfg = _Config(P.build_config(ctxs))
                if fe == "pandas":
                    df = P.to_frame(tb)
                    df["notes"] = text
                    return snapshot(list(_PS(df).run(cfg)))
                return snapshot(list(_NS(inp={"v1": tb.data["v1"], "notes": np.array(text)}, time=tb.time, z=tb.z, lat=tb.lat, lon=tb.lon).run(cfg)))
            wb = {"kind": "fault-run", "frontend": fe + " (with a text column)", "table": tb.describe(), "healthy_config": core.jsonable(base_c),
                  "faulty_config": core.jsonable(faulty_c), "text_column": text}
            try:
                ref = run_text(base_c)
            except Exception as e:  # noqa: BLE001
                ctx.violation(f"C18:{fe}:text-column:healthy-run-raised:{type(e).__name__}", {**wb, "error": repr(e)[:300]})
                continue
            ctx.count("c18.fault_runs")
            ctx.count("c18.text_column_runs")
            ctx.case(f"text-column|{fe}|{order[0]}-first|k{len(bad_tests)}")
            try:
                got = run_text(faulty_c)
            except Exception as e:  # noqa: BLE001
                ctx.violation(f"C18:{fe}:text-column:run-did-not-complete:{type(e).__name__}@{P.client_where(e)}", {**wb, "error": repr(e)[:300]})
                continue
            if got != ref:
                ctx.violation(f"C18:{fe}:text-column:results-differ-from-healthy-run",
                              {**wb, "only_with_fault": [list(map(str, k)) for k in got if k not in ref],
                               "disturbed": [list(map(str, k)) for k in ref if got.get(k) != ref[k]][:5]})
        ctx.exhaustive.append("fault kind (21) x position (5) x front end (8) x healthy set (3), " +
                              ("complete" if ctx.thorough else "every second combination"))
    finally:
        scratch.close()
        P.remove_probes()
