"""C11 — flat line: window ending at n varies less than tolerance (DESIGN §4 C11)."""
from __future__ import annotations

import numpy as np

from vfw import client, gen, hooks, models

LEVEL = "exploration"
SHARDS = {"quick": 4, "thorough": 16}
ANCHORS = [("qartod.py", "flat_line_test"), ("qartod.py", "flat_line_test.<locals>.rolling_window"),
           ("qartod.py", "flat_line_test.<locals>.run_test")]
RULE = ("sweep n in 0..14 (0..24 thorough) x step D in {1, 60, 900} (and, thinner, 86400, 90000, 864000) x (suspect, fail) durations from {0, D/2, D, 1.5D, "
        "2D, 2.9D, 3D, (n-1)D, nD, (n+3)D} x plateaus of k-1..k+2 steps at start/middle/end of a unit ramp with "
        "+-1/4 ripple x tolerance below / equal to / above the plateau range and 0 x missing values inside windows x "
        "time carriers; each call judged per point by the window model, and every strided view that is read is "
        "checked to lie inside its base buffer (byte-bounds hook).  distinct = (n class, D, k class for each "
        "threshold, tolerance relation, missing class, set of flags); trivial = all GOOD.")
ASSUMPTIONS = ["regularly sampled series only (statement's domain)", "thresholds >= 0"]
EXHAUSTIVE_ALL = False

CARRIERS = ["dt64ns", "dt64s", "epoch-int", "epoch-float", "epoch-list", "dtindex", "series"]


def kclass(thr, D, n):
    k = int(int(thr) / D)
    return "k0" if k == 0 else "k=n" if k == n else "k>n" if k > n else "k=n-1" if k == n - 1 else "kmid"


def run(ctx) -> None:
    rng = ctx.rng
    ctx.require("flat_line.calls", 1000)
    import ioos_qc.qartod as q  # noqa: PLC0415

    from vfw import core  # noqa: PLC0415

    # the byte-bounds hook watches the as_strided rolling window of this implementation; a tree that computes the window
    # range some other way has no such views to watch (its memory safety is left to the memcheck run of the thorough tier)
    strided_impl = core.code_lines(q, "flat_line_test.<locals>.rolling_window") is not None
    if strided_impl:
        ctx.require("bounds.views_formed", 100)
        ctx.require("bounds.views_read", 100)
    else:
        ctx.notes.append("flat_line_test has no as_strided rolling_window helper in this tree: byte-bounds hook not required")
    mon = hooks.BoundsMonitor()
    i = 0
    nmax = ctx.pick(14, 24)
    reps = ctx.pick(2, 4)
    for n in range(nmax + 1):
        for D in (1, 60, 900, 86400, 90000, 864000):
            pool = sorted({0, D / 2, D, 1.5 * D, 2 * D, 2.9 * D, 3 * D, (n - 1) * D, n * D, (n + 3) * D} - {-D})
            if D >= 86400:  # sampling steps of a day and more (daily / 25-hourly / 10-daily records): a thinner sweep
                pool = sorted({0, D, 2 * D, 3 * D, (n - 1) * D, 2 * D - 1, 3 * D - 1, 2 * D + 1} - {-D})  # a second short of k steps is k-1 steps
            for st in pool:
                for ft in pool:
                    i += 1
                    if not ctx.mine(i):
                        continue
                    for _ in range(reps):
                        kref = int(int(rng.choice([st, ft])) / D)
                        L = max(1, kref + rng.choice([-1, 0, 1, 2]) + 1)  # points in the plateau
                        pos = rng.choice(["start", "middle", "end"])
                        s0 = 0 if pos == "start" else max(0, n - L) if pos == "end" else max(0, (n - L) // 2)
                        base = gen.dyadic(rng)
                        x = []
                        for k in range(n):
                            if s0 <= k < s0 + L:
                                x.append(base + 100 + (0.25 if (k - s0) % 2 else 0.0))
                            else:
                                x.append(base + float(k))
                        # (also a hair above the plateau's ripple, and "exact repeat" tolerances far below any float noise guard)
                        tol = rng.choice([0, 0.125, 0.25, 0.5, 1.0, 1.5, 0.25 * (1 + 2.0 ** -20), 2.0 ** -40, 1e-9])
                        pm = rng.choice([0, 0, 0.15, 0.4])
                        x = [None if rng.random() < pm else v for v in x]
                        carrier = rng.choice(CARRIERS)
                        t = gen.regular(n, D, t0=gen.T0 + rng.choice([0, 17, 86399]))
                        kw = {"inp": gen.carried(rng, x, poisons=(base + 100, base + 100.25, 0.0, 1e6)), "tinp": gen.times(t, carrier),
                              "suspect_threshold": gen.ptype(rng, st), "fail_threshold": gen.ptype(rng, ft),
                              "tolerance": gen.ptype(rng, tol)}
                        with mon.active():
                            o, _ = client.expect(ctx, "C11", "qartod.flat_line_test", kw,
                                                 lambda: models.flat_line(x, D, st, ft, tol),
                                                 logical={"x": x, "step": D, "suspect_threshold": st,
                                                          "fail_threshold": ft, "tolerance": tol, "carrier": carrier},
                                                 hist="flat_line")
                        ctx.count("flat_line.calls")
                        fs = gen.flagset(o)
                        ctx.case(f"n{gen.nclass(n)}|D{D}|{kclass(st, D, n)}|{kclass(ft, D, n)}|tol{tol}|m{gen.mclass(x) if n else 'none'}|{fs}",
                                 trivial=fs in ("1", ""),
                                 sample={"x": x, "step": D, "suspect_threshold": st, "fail_threshold": ft,
                                         "tolerance": tol, "observed": o.brief()})
    if ctx.shard == 0:
        n = 70001
        x = [float(k % 9) for k in range(n)]
        for b in (4096, 16384, 32768, 65536):
            for k in range(b - 3, b + 4):
                x[k] = 500.0 + 0.25 * (k % 2)  # a plateau straddling the power of two
            x[b + 8] = None
        t = gen.regular(n, 60)
        kw = {"inp": gen.arr(x), "tinp": gen.times(t), "suspect_threshold": 120, "fail_threshold": 300, "tolerance": 0.5}
        with mon.active():
            client.expect(ctx, "C11", "qartod.flat_line_test", kw, lambda: models.flat_line(x, 60, 120, 300, 0.5),
                          logical={"x": "70001 points, plateaus around 4096/16384/32768/65536", "step": 60}, hist="flat_line")
        ctx.count("flat_line.calls")
        ctx.case("huge|70001")
        # long windows (k = 99 steps) over a long record of large-magnitude values whose wiggle is just above the tolerance
        n = 60000
        x = [101325.0 + (0.00390625 if (k // 50) % 2 else 0.0) for k in range(n)]  # 2^-8 wiggle, tolerance 2^-9 * 1.5
        for b in (20000, 40000):
            for k in range(b, b + 300):
                x[k] = 101325.0
        t = gen.regular(n, 1)
        kw = {"inp": gen.arr(x), "tinp": gen.times(t), "suspect_threshold": 99, "fail_threshold": 249, "tolerance": 0.0029296875}
        with mon.active():
            client.expect(ctx, "C11", "qartod.flat_line_test", kw, lambda: models.flat_line(x, 1, 99, 249, 0.0029296875),
                          logical={"x": "60000 points near 101325 with a 2^-8 wiggle every 50 samples and two 300-sample plateaus",
                                   "step": 1, "suspect_threshold": 99, "fail_threshold": 249, "tolerance": 0.0029296875}, hist="flat_line")
        ctx.count("flat_line.calls")
        ctx.case("huge|long-window|60000")
        # an observation that happens to equal numpy's default fill value (1e20) is an ordinary present value
        for pos in (3, 6):
            x = [5.0, 5.0, 5.0, 5.25, 5.0, 5.0, 5.0, 5.0, 5.25, 5.0]
            x[pos] = 1e20
            for inp in (gen.arr(x), list(x), np.ma.MaskedArray(np.array(x), mask=[False] * len(x))):
                kw = {"inp": inp, "tinp": gen.times(gen.regular(len(x), 60)), "suspect_threshold": 120, "fail_threshold": 240, "tolerance": 0.5}
                client.expect(ctx, "C11", "qartod.flat_line_test", kw, lambda: models.flat_line(x, 60, 120, 240, 0.5),
                              logical={"x": x, "step": 60, "note": "1e20 is a present value"}, hist="flat_line")
                ctx.count("flat_line.calls")
                ctx.case(f"fillvalue-coincidence|{pos}|{type(inp).__name__}")
    ctx.counters["bounds.views_formed"] += mon.formed
    ctx.counters["bounds.views_formed_past_buffer_end(legal, never read)"] += mon.formed_oob
    ctx.counters["bounds.views_read"] += mon.materialised
    for v in mon.violations[:50]:
        ctx.violation(f"C11:strided-view-read-outside-buffer:{v['where']}", {"kind": "bounds", **v})

    if ctx.thorough and ctx.shard == 0:
        from vfw import memcheck  # noqa: PLC0415

        memcheck.run(ctx, "flat_line")
