"""C05 — a stream run = the test called on the window's rows (DESIGN §4 C05)."""
from __future__ import annotations

import inspect

import numpy as np
import pandas as pd

from vfw import core, plumbing as P

LEVEL = "exploration"
SHARDS = {"quick": 4, "thorough": 16}
ANCHORS = [("streams.py", "PandasStream.run"), ("streams.py", "NumpyStream.run"), ("streams.py", "NetcdfStream.run"),
           ("streams.py", "XarrayStream.run"), ("config.py", "Call.run"), ("config.py", "QcConfig.run")]
RULE = ("W1: tables of 1,2,3,5 (..8 thorough) rows with unique ids, one probe test, every window layout (absent, "
        "closed, start-only, end-only, empty, all-covering, bounds exactly on / one second after each row time) on "
        "every front end (PandasStream with default/shifted/permuted/string/datetime/reversed/duplicate-label/constant-label index and renamed axis "
        "columns, NumpyStream array+dict, XarrayStream Dataset (time as coordinate / as plain variable) + NetCDF-3 "
        "file, NetcdfStream Dataset + file, QcConfig.run); W2: seeded configs of 1-3 contexts x 1-3 streams x 1-3 "
        "tests drawn from the probe and neighbour/time/depth/position dependent real tests on regular and irregular "
        "axes with or without z/lat/lon.  Per configured (context, stream, test): the arrays received by the test "
        "(spy/probe) must be exactly the window rows, subset_indexes the row mask, and the reported flags equal to a "
        "direct call of the real function on those rows.  distinct = (front end+options, window kind, tests, n "
        "class, axes present); trivial = no window and a single test.")
ASSUMPTIONS = ["NetCDF-3 only (no h5py in the sandbox); NetcdfStream files carry time as epoch seconds",
               "time axes are strictly increasing whole seconds; windows are naive Timestamps/datetimes",
               "a window is only configured for sources that have a time axis"]
EXHAUSTIVE_ALL = False

REAL_TESTS = {
    "spike": ("qartod", "spike_test", {"suspect_threshold": 0.5, "fail_threshold": 1.5}, ()),
    "spike-diff": ("qartod", "spike_test", {"suspect_threshold": 0.5, "fail_threshold": 1.5, "method": "differential"}, ()),
    "roc": ("qartod", "rate_of_change_test", {"threshold": 0.01}, ("time",)),
    "flat": ("qartod", "flat_line_test", {"suspect_threshold": 60, "fail_threshold": 120, "tolerance": 1.5}, ("time",)),
    "att": ("qartod", "attenuated_signal_test",
            {"suspect_threshold": 2.0, "fail_threshold": 0.8, "test_period": 150, "min_obs": 2, "check_type": "range"},
            ("time",)),
    "att-std": ("qartod", "attenuated_signal_test", {"suspect_threshold": 2.0, "fail_threshold": 0.8}, ("time",)),
    "gross": ("qartod", "gross_range_test", {"fail_span": [1001, 1006], "suspect_span": [1002, 1004]}, ()),
    "clim": ("qartod", "climatology_test",
             {"config": [{"tspan": [0, 13], "period": "month", "vspan": [1001, 1003], "fspan": [1000, 1005],
                          "zspan": [5001, 5004]}]}, ("time", "z")),
    # (a member keyed on the hour of the day: sensitive to what clock the time input is read on)
    "clim-hour": ("qartod", "climatology_test",
                  {"config": [{"tspan": [0, 11], "period": "hour", "vspan": [1001, 1003], "fspan": [1000, 1005]},
                              {"tspan": [12, 23], "period": "hour", "vspan": [1004, 1100]}]}, ("time", "z")),
    "dens": ("qartod", "density_inversion_test", {"suspect_threshold": 2, "fail_threshold": 0.5}, ("z",)),
    "loc": ("qartod", "location_test", {"bbox": [10.2, -60, 11.2, -58.4], "range_max": 58000}, ("pos",)),
    "speed": ("argo", "speed_test", {"suspect_threshold": 500, "fail_threshold": 950}, ("time", "pos")),
    "pres": ("argo", "pressure_increasing_test", {}, ()),
    "valid": ("axds", "valid_range_test", {"valid_span": [1001, 1004]}, ()),
}


def same_axis(axis, a, b):
    """equality of what a test received on one axis; instants compare to the microsecond (+-1 for float epoch carriers)"""
    if axis != "tinp" or a is None or b is None:
        return a == b
    return len(a) == len(b) and all(abs(x - y) <= 1 for x, y in zip(a, b))


def wkind(tb, w):
    a, b = w
    if a is None and b is None:
        return "absent"
    m = tb.rows_in(w)
    k = "start-only" if b is None else "end-only" if a is None else "inverted" if b < a else "closed"
    cov = "empty" if not m.any() else "all" if m.all() else "partial"
    onrow = "on-row" if (a in tb.secs or b in tb.secs) else "off-row"
    return f"{k}/{cov}/{onrow}"


def direct(module, test, kwargs, tb, mask, sid, masked_input=False, time_tz=None):
    """What the statement says the result is: the real function called on the window rows."""
    real = P.REAL.get((module, test))
    if real is None:
        import importlib

        real = getattr(importlib.import_module(f"ioos_qc.{module}"), test)
        real = getattr(real, "__wrapped__", real)
    data = tb.data[sid]
    if masked_input:
        data = np.ma.MaskedArray(data, mask=[(i % 3 == 1) for i in range(len(data))])
    avail = {"inp": data[mask]}
    if tb.with_time:
        avail["tinp"] = tb.time[mask] if time_tz is None else pd.Series(P.aware_times(tb, time_tz))[mask]
    if tb.with_z:
        avail["zinp"] = tb.z[mask]
    if tb.with_pos:
        avail["lat"], avail["lon"] = tb.lat[mask], tb.lon[mask]
    params = [p.name for p in inspect.signature(real).parameters.values() if p.kind == p.POSITIONAL_OR_KEYWORD]
    kw = {k: v for k, v in {**kwargs, **avail}.items() if k in params}
    try:
        with np.errstate(all="ignore"):
            r = real(**kw)
        return np.ma.getdata(r).astype(int).reshape(-1).tolist()
    except Exception:  # noqa: BLE001
        return None  # the test cannot run on these rows: it must contribute no result


def expected_received(tb, mask, sid):
    return {"ids": tb.data[sid][mask].tolist(),
            "tinp": [P.us(s) for s, m in zip(tb.secs, mask) if m] if tb.with_time else None,
            "zinp": tb.z[mask].tolist() if tb.with_z else None,
            "lat": tb.lat[mask].tolist() if tb.with_pos else None,
            "lon": tb.lon[mask].tolist() if tb.with_pos else None}


def received_from_spy(ev):
    kw = ev["kw"]
    g = lambda k: kw.get(k)  # noqa: E731
    return {"ids": np.asarray(P._a(g("inp")), dtype=float).reshape(-1).tolist() if g("inp") is not None else
            (np.asarray(P._a(g("lon")), dtype=float).reshape(-1).tolist() if False else None),
            "tinp": P._times_to_secs(g("tinp")),
            "zinp": None if g("zinp") is None else np.asarray(P._a(g("zinp")), dtype=float).tolist(),
            "lat": None if g("lat") is None else np.asarray(P._a(g("lat")), dtype=float).tolist(),
            "lon": None if g("lon") is None else np.asarray(P._a(g("lon")), dtype=float).tolist()}


def judge_run(ctx, fe, opts, tb, contexts, res, err, witness_base):
    """Compare one front-end run with the statement.  contexts as for P.build_config."""
    label = fe + ("" if not opts else ":" + ",".join(f"{k}={v}" for k, v in sorted(opts.items()) if k != "names") +
                  (",renamed" if opts.get("names") else ""))
    if err is not None:
        from vfw import client

        ctx.violation(f"C05:{label}:run-raised:{type(err).__name__}@{client.innermost_repo_frame(err.__traceback__)}",
                      {**witness_base, "error": repr(err)[:300]})
        return
    events = list(P.LOG)
    if fe == "qcconfig":
        # dict form: results[package][test] scattered on all rows, UNKNOWN where not covered
        for c in contexts:
            mask = tb.rows_in(c["window"])
            for sid, tests in c["streams"].items():
                for module, test, kwargs in tests:
                    # the dict form keeps one array per test: where two contexts overlap on the same
                    # test the later one wins, which the statement does not address -> not judged
                    others = [tb.rows_in(o["window"]) for o in contexts if o is not c
                              and any(t == test and m == module for ts_ in o["streams"].values() for m, t, _ in ts_)]
                    if any((mask & om).any() for om in others):
                        ctx.count("c05.qcconfig_overlap_not_judged")
                        continue
                    exp = direct(module, test, kwargs, tb, mask, tb.streams[0], masked_input=bool(opts.get("masked_input")))
                    got = res.get(module, {}).get(test) if hasattr(res, "get") else None
                    ctx.count("c05.results_judged")
                    if exp is None:
                        continue
                    if got is None:
                        ctx.violation(f"C05:{label}:missing-result", {**witness_base, "test": test})
                        continue
                    g = np.ma.getdata(got).astype(int).tolist()
                    sub = [g[i] for i in range(tb.n) if mask[i]]
                    if sub != exp:
                        ctx.violation(f"C05:{label}:flags", {**witness_base, "test": test, "expected_on_window": exp,
                                                            "observed_on_window": sub, "observed_all": g})
        return
    used = set()
    for ci, c in enumerate(contexts):
        mask = tb.rows_in(c["window"])
        for sid, tests in c["streams"].items():
            src_sid = sid if fe != "numpy-array" else tb.streams[0]
            for module, test, kwargs in tests:
                ctx.count("c05.results_judged")
                exp_flags = direct(module, test, kwargs, tb, mask, src_sid, masked_input=bool(opts.get("masked_input")),
                                   time_tz=opts.get("time_tz"))
                exp_recv = expected_received(tb, mask, src_sid)
                # 1. the ContextResult
                cand = [i for i, r in enumerate(res) if i not in used and r.stream_id == sid and (
                    (len(r.results) == 1 and r.results[0].test == test and r.results[0].package == module)
                    or (len(r.results) == 0 and exp_flags is None))]
                pick = None
                for i in cand:
                    r = res[i]
                    si = np.asarray(r.subset_indexes).reshape(-1)
                    fl = None if not r.results else np.ma.getdata(r.results[0].results).astype(int).reshape(-1).tolist()
                    if si.shape == mask.shape and (si == mask).all() and fl == exp_flags:
                        pick = i
                        break
                if pick is None and cand:
                    pick = cand[0]
                if pick is None:
                    ctx.violation(f"C05:{label}:missing-result",
                                  {**witness_base, "context": ci, "stream": sid, "test": f"{module}.{test}",
                                   "yielded": [(r.stream_id, [x.test for x in r.results]) for r in res]})
                    continue
                used.add(pick)
                r = res[pick]
                si = np.asarray(r.subset_indexes)
                if si.shape != mask.shape or not (si.reshape(-1) == mask).all():
                    ctx.violation(f"C05:{label}:subset_indexes",
                                  {**witness_base, "context": ci, "stream": sid, "test": test, "window": c["window"],
                                   "expected_rows": np.flatnonzero(mask).tolist(),
                                   "observed_shape": list(si.shape),
                                   "observed_rows": np.flatnonzero(si.reshape(-1)).tolist() if si.ndim else repr(si)})
                fl = None if not r.results else np.ma.getdata(r.results[0].results).astype(int).reshape(-1).tolist()
                if fl != exp_flags:
                    ctx.violation(f"C05:{label}:flags:{test}",
                                  {**witness_base, "context": ci, "stream": sid, "test": test, "window": c["window"],
                                   "kwargs": core.jsonable(kwargs), "expected_flags(direct call on window rows)": exp_flags,
                                   "observed_flags": fl})
                # (whether a test may hide flags behind a mask is C01's clause, not C05's)
                # 2. what the test function received (probe / spy log)
                if test == "vf_probe_test":
                    evs = [e for e in events if e["ev"] == "probe" and e["tag"] == kwargs.get("tag", 0)
                           and not e.get("_used")]
                    recv = None
                    for e in evs:
                        if e["ids"] == exp_recv["ids"]:
                            recv = e
                            break
                    if recv is None and evs:
                        recv = evs[0]
                    if recv is None:
                        ctx.violation(f"C05:{label}:test-not-invoked", {**witness_base, "context": ci, "test": test})
                        continue
                    recv["_used"] = True
                    got = {k: recv[k] for k in ("ids", "tinp", "zinp", "lat", "lon")}
                else:
                    evs = [e for e in events if e["ev"] == "spy" and e["func"] == f"{module}.{test}" and not e.get("_used")]
                    recv = None
                    for e in evs:
                        g = received_from_spy(e)
                        # (the event of THIS context: every input the call was given equals what this context's rows give)
                        if all(same_axis(a, g[a], exp_recv[a]) for a in ("ids", "tinp", "zinp", "lat", "lon") if g[a] is not None):
                            recv = e
                            break
                    if recv is None and evs:
                        recv = evs[0]
                    if recv is None:
                        ctx.violation(f"C05:{label}:test-not-invoked", {**witness_base, "context": ci, "test": test})
                        continue
                    recv["_used"] = True
                    got = received_from_spy(recv)
                    params = [p for p in inspect.signature(P.REAL[(module, test)]).parameters]
                    # only inputs the function takes can be observed
                    exp_recv = {k: (v if ({"ids": "inp"}.get(k, k) in params) else None) for k, v in exp_recv.items()}
                    got = {k: (v if ({"ids": "inp"}.get(k, k) in params) else None) for k, v in got.items()}
                ctx.count("c05.invocations_observed")
                for axis in ("ids", "tinp", "zinp", "lat", "lon"):
                    if not same_axis(axis, got[axis], exp_recv[axis]):
                        ctx.violation(f"C05:{label}:rows-received:{axis}",
                                      {**witness_base, "context": ci, "stream": sid, "test": test,
                                       "window": c["window"], "axis": axis, "expected": exp_recv[axis],
                                       "observed": got[axis]})
                        break
    extra = [i for i in range(len(res)) if i not in used and res[i].results]
    if extra:
        ctx.violation(f"C05:{label}:extra-result",
                      {**witness_base, "extra": [(res[i].stream_id, [x.test for x in res[i].results]) for i in extra]})
    leftover = [e for e in events if e["ev"] in ("probe", "spy") and not e.get("_used") and "raised" not in e]
    if leftover:
        # not a violation of the statement (which speaks about the flags reported), only recorded
        ctx.count("c05.extra_test_invocations_observed", len(leftover))


def fe_variants(ctx, tb, single_stream):
    """(front end, opts) pairs applicable to this table."""
    out = [("pandas", {}), ("pandas", {"index": "shifted"}), ("pandas", {"index": "permuted"}),
           ("pandas", {"index": "string"}), ("pandas", {"index": "datetime"}), ("pandas", {"index": "reversed"}),
           ("pandas", {"index": "duplicated"}), ("pandas", {"index": "constant"}),
           ("pandas", {"names": {"time": "when", "z": "depth", "lat": "y", "lon": "x"}}),
           *([("pandas", {"time_tz": "America/New_York"}), ("pandas", {"time_tz": "Asia/Kolkata", "index": "shifted"})]
             if tb.with_time and tb.time_unit == "ns" else []),
           ("numpy-dict", {}), ("numpy-dict", {"time_carrier": "epoch"}), ("numpy-dict", {"masked_input": True}),
           ("xarray-ds", {}), ("xarray-file", {}), ("netcdf-ds", {}), ("netcdf-file", {})]
    if tb.with_time:
        out.append(("xarray-ds", {"time_coord": False}))
    if single_stream:
        out += [("numpy-array", {}), ("numpy-array", {"masked_input": True}), ("qcconfig", {}), ("qcconfig", {"masked_input": True})]
    return out


def run_one(ctx, tb, contexts, fe, opts, scratch, tag) -> None:
    names = sorted({f"{m}.{t}" for c in contexts for tests in c["streams"].values() for m, t, _ in tests
                    if t != "vf_probe_test"})
    how = ctx.rng.choice(["timestamp", "datetime"])
    if opts.get("time_tz"):
        # a tz-aware time column is compared as instants: the bounds are tz-aware stamps, in any zone
        how = "aware:" + ctx.rng.choice(["UTC", "Europe/Paris", opts["time_tz"]])
    cfgd = P.build_config(contexts, how)
    if len(contexts) >= 2 and fe != "qcconfig" and ctx.rng.random() < 0.3:
        # run -> Config.add(more contexts) -> run: the config that is finally run is the same
        k = ctx.rng.randrange(1, len(contexts))
        opts = {**opts, "add_later": P.build_config(contexts[k:], how)}
        cfgd = P.build_config(contexts[:k], how)
        ctx.count("c05.run_add_run_histories")
    if fe == "qcconfig":
        # single stream: QcConfig names it _stream
        cfgd = {"contexts": [{**c, "streams": {"_stream": next(iter(c["streams"].values()))}} for c in cfgd["contexts"]]}
    P.LOG.clear()
    with P.spies(names):
        res, err = P.run_frontend(fe, tb, cfgd, scratch, opts)
    wb = {"kind": "stream-run", "frontend": fe, "opts": core.jsonable({k: v for k, v in opts.items() if k != "add_later"}),
          "history": "run, Config.add(later contexts), run" if "add_later" in opts else "single run", "table": tb.describe(),
          "contexts": core.jsonable(contexts), "window_carrier": how}
    judge_run(ctx, fe, {k: v for k, v in opts.items() if k != "add_later"}, tb, contexts, res, err, wb)
    P.LOG.clear()
    ctx.count("c05.runs")
    ctx.count(f"c05.runs.{fe}")
    tests = "+".join(sorted({t for c in contexts for ts_ in c["streams"].values() for _, t, _ in ts_}))
    wk = ",".join(sorted({wkind(tb, c["window"]) for c in contexts}))
    trivial = len(contexts) == 1 and contexts[0]["window"] == (None, None) and tests == "vf_probe_test"
    okey = sorted((k, v) for k, v in opts.items() if k != "add_later") if "names" not in opts else "renamed"
    ctx.case(f"{tag}|{fe}{okey}{'|add-later' if 'add_later' in opts else ''}|{wk}|{tests}|n{tb.n}|"
             f"z{int(tb.with_z)}p{int(tb.with_pos)}t{int(tb.with_time)}", trivial=trivial,
             sample={"frontend": fe, "opts": core.jsonable(opts), "table": tb.describe(),
                     "contexts": core.jsonable(contexts)})


def run(ctx) -> None:
    rng = ctx.rng
    ctx.require("c05.runs", 300)
    ctx.require("c05.invocations_observed", 300)
    ctx.require("c05.run_add_run_histories", 10)
    for fe in P.FRONTENDS:
        ctx.require(f"c05.runs.{fe}", 5)
    P.install_probes()
    scratch = P.Scratch()
    try:
        i = 0
        for n in ctx.pick((1, 2, 3, 5), (1, 2, 3, 5, 8)):
            for regular in (True, False):
                secs = None if regular else gen_irregular(rng, n)
                tb = P.Table(n, streams=("v1",), secs=secs)
                for w in P.window_layouts(tb):
                    i += 1
                    if not ctx.mine(i):
                        continue
                    variants = fe_variants(ctx, tb, True)
                    # every layout on 3 (quick) / all (thorough) front-end variants, rotating
                    chosen = variants if ctx.thorough else [variants[(i + k * 5) % len(variants)] for k in range(3)]
                    for fe, opts in chosen:
                        contexts = [{"window": w, "streams": {"v1": [("qartod", "vf_probe_test", {"tag": 1})]}}]
                        run_one(ctx, tb, contexts, fe, opts, scratch, "w1")
        ctx.exhaustive.append("every window layout (bounds on/after each row time, open/closed/empty/all) for tables of "
                              "1,2,3,5(,8) rows with the probe test")
        # ---- W2
        for _ in range(ctx.pick(170, 1500)):
            n = rng.choice([1, 2, 3, 5, 8, 13, 13, 40, ctx.pick(120, 500)])
            nstreams = rng.choice([1, 1, 2, 3, 5])
            streams = [f"v{k + 1}" for k in range(nstreams)]
            with_time = rng.random() < 0.9
            unit = rng.choice(["ns", "ns", "s", "ms", "us"])
            secs = None if rng.random() < 0.5 else gen_irregular(rng, n)
            unsorted = with_time and n >= 3 and rng.random() < 0.2
            if unsorted:
                secs = list(secs) if secs is not None else [P.T0 + 60 * i for i in range(n)]
                how = rng.choice(["shuffled", "shuffled", "descending", "duplicated"])
                if how == "descending":
                    secs.sort(reverse=True)
                elif how == "duplicated":
                    secs = [secs[k - k % 2] for k in range(n)]  # pairs of rows share an instant
                    rng.shuffle(secs)
                else:
                    rng.shuffle(secs)  # rows are not in time order: a window selects non-contiguous rows
            tb = P.Table(n, streams=streams, secs=secs, with_z=rng.random() < 0.8, with_pos=rng.random() < 0.8,
                         with_time=with_time, time_unit=unit)
            nctx = rng.choice([1, 2, 3, 3, 5, 7])
            lay = P.window_layouts(tb, half=rng.random() < 0.4) if with_time else [(None, None)]
            if unsorted:
                srt = sorted(tb.secs)
                lay = [(None, None)] + [(a, b) for a in (None, srt[0], srt[n // 3], srt[n // 2]) for b in (None, srt[n // 2] + 1, srt[-1], srt[-1] + 1)
                                        if (a, b) != (None, None) and (a is None or b is None or a <= b)]
            if len(lay) > 400:
                lay = rng.sample(lay, 400)
            wins = rng.sample(lay, min(nctx, len(lay)))
            contexts = []
            for ci, w in enumerate(wins):
                sd = {}
                for s in rng.sample(streams, rng.randrange(1, nstreams + 1)):
                    keys = rng.sample(sorted(REAL_TESTS), rng.choice([0, 1, 2, 2, 5]))
                    tests = [("qartod", "vf_probe_test", {"tag": ci * 7 + streams.index(s)})]
                    for k in keys:
                        m, t, kw, needs = REAL_TESTS[k]
                        if any(t == x[1] for x in tests):
                            continue
                        kw = dict(kw)
                        if rng.random() < 0.25:
                            # legacy style: the config also names an input the stream supplies itself; the rows handed
                            # over by the stream are what the statement says the test is called on
                            if "z" in needs and tb.with_z:
                                kw["zinp"] = [9.0] * tb.n
                                ctx.count("c05.configs_naming_a_stream_input")
                            if "pos" in needs and tb.with_pos:
                                kw["lon"], kw["lat"] = [0.0] * tb.n, [0.0] * tb.n
                                ctx.count("c05.configs_naming_a_stream_input")
                        tests.append((m, t, kw))
                    rng.shuffle(tests)
                    sd[s] = tests
                cdict = {"window": w, "streams": sd}
                if rng.random() < 0.2:
                    # a context may carry a region next to its window (regions are documented as not applied yet by the
                    # stream front ends); the window still selects the rows
                    cdict["region"] = {"type": "Feature", "geometry": {"type": "Polygon", "coordinates": [[[-180 + ci, -90], [-180 + ci, 90], [180, 90], [180, -90], [-180 + ci, -90]]]}}
                    ctx.count("c05.contexts_with_region_and_window")
                contexts.append(cdict)
            variants = fe_variants(ctx, tb, nstreams == 1)
            chosen = rng.sample(variants, min(len(variants), ctx.pick(3, 6)))
            if unsorted:
                ctx.count("c05.unsorted_time_tables")
                xs = [v for v in variants if v[0].startswith("xarray")]
                if xs and not any(v[0].startswith("xarray") for v in chosen):
                    chosen.append(rng.choice(xs))  # every front end selects rows by value, in original order
            for fe, opts in chosen:
                run_one(ctx, tb, contexts, fe, opts, scratch, "w2-unsorted" if unsorted else "w2")
        # ---- a record longer than 2^16 rows with a position jump exactly across row 65535 -> 65536 (and 32767 -> 32768):
        #      tests that look at the previous row are called once on all the window's rows, however many there are
        if ctx.shard == ctx.nshards - 1:
            n = 70001
            tb = P.Table(n, streams=("v1",))
            tb.lat = np.array([10.0 + 1e-5 * r + (1.0 if r >= 65536 else 0.0) + (0.5 if r >= 32768 else 0.0) for r in range(n)])
            tb.lon = np.array([20.0 + 1e-5 * r for r in range(n)])
            tb.data["v1"] = np.array([1000.0 + (r % 7) + (50.0 if r in (32768, 65536) else 0.0) for r in range(n)])
            big = [("qartod", "location_test", {"range_max": 100.0}), ("qartod", "spike_test", {"suspect_threshold": 10, "fail_threshold": 40}),
                   ("qartod", "gross_range_test", {"fail_span": [0, 1040]})]
            for fe in ctx.pick(["numpy-dict"], ["numpy-dict", "pandas", "xarray-ds"]):
                for w in ((None, None), (tb.secs[100], tb.secs[69900])):
                    run_one(ctx, tb, [{"window": w, "streams": {"v1": big}}], fe, {}, scratch, "long-record")
                    ctx.count("c05.long_record_runs")
        # ---- fast sampling: instants and window bounds with sub-millisecond parts (kHz loggers, float epoch times in files)
        for _ in range(ctx.pick(12, 80)):
            n = rng.choice([5, 8])
            # (rows and bounds never closer than 0.1 ms: float epoch carriers are only good to a fraction of a microsecond)
            secs = [P.T0 + 0.001 * k + rng.choice([0.0001, 0.0002, 0.0004, 0.0007]) for k in range(n)]
            tb = P.Table(n, streams=("v1",), secs=secs, with_pos=False)
            cuts = sorted(rng.sample([P.T0 + 0.001 * k + f for k in range(n + 1) for f in (0.0, 0.0003, 0.0005, 0.0009)], 2))
            wins = [(None, cuts[0]), (cuts[0], cuts[1]), (cuts[1], None)]
            contexts = [{"window": w, "streams": {"v1": [("qartod", "vf_probe_test", {"tag": k_ + 1}),
                                                         ("qartod", "gross_range_test", {"fail_span": [1001, 1006], "suspect_span": [1002, 1004]})]}}
                        for k_, w in enumerate(wins)]
            for fe, opts in rng.sample([("numpy-dict", {}), ("netcdf-file", {}), ("pandas", {}), ("xarray-ds", {}), ("numpy-dict", {"time_carrier": "epoch"}),
                                        ("netcdf-ds", {})], 3):
                run_one(ctx, tb, contexts, fe, opts, scratch, "sub-ms")
                ctx.count("c05.sub_millisecond_runs")
        # ---- histories across runs: two data sets with the same length and the same first / last instant but different
        #      interior instants, run one after the other with the same window
        for _ in range(ctx.pick(25, 200)):
            n = rng.choice([6, 9, 12])
            step = rng.choice([60, 3600])
            sa = [P.T0 + step * i for i in range(n)]
            sb = [P.T0 + i for i in range(n - 1)] + [sa[-1]]  # burst at the start, same ends
            w = (sa[n // 3], sa[(2 * n) // 3])
            for fe in ("numpy-dict", "numpy-array", "netcdf-ds", "qcconfig", "pandas", "xarray-ds"):
                for secs_ in ((sa, sb) if rng.random() < 0.5 else (sb, sa)):
                    tbx = P.Table(n, streams=("v1",), secs=secs_)
                    ctxs = [{"window": w, "streams": {"v1": [("qartod", "vf_probe_test", {"tag": 5}),
                                                             ("qartod", "gross_range_test", {"fail_span": [1001, 1006], "suspect_span": [1002, 1004]})]}}]
                    run_one(ctx, tbx, ctxs, fe, {}, scratch, "pair-history")
                    ctx.count("c05.same_ends_history_runs")
    finally:
        scratch.close()
        P.remove_probes()


def gen_irregular(rng, n):
    from vfw import gen

    return gen.irregular(rng, n, steps=(1, 2, 59, 60, 61, 3600, 86400))


def replay(w) -> int:
    """./vf replay <file>: rebuild the table and config of a stream-run witness and judge it again."""
    import json

    from vfw import core as _core

    print(json.dumps({k: v for k, v in w.items() if k not in ("contexts",)}, indent=1)[:3000])
    if w.get("kind") != "stream-run":
        return 0
    t = w["table"]
    tb = P.Table(t["n"], streams=t["streams"], secs=[P.T0 + s for s in t["secs_from_t0"]], with_z=t["with_z"],
                 with_pos=t["with_pos"], with_time=t["with_time"])
    contexts = [{"window": tuple(c["window"]), "streams": {s: [(m, tt, kw) for m, tt, kw in ts_] for s, ts_ in c["streams"].items()}}
                for c in w["contexts"]]
    ctx = _core.Ctx("C05", "quick", 0)
    ctx.findings = []
    P.install_probes()
    scratch = P.Scratch()
    try:
        run_one(ctx, tb, contexts, w["frontend"], w.get("opts") or {}, scratch, "replay")
    finally:
        scratch.close()
        P.remove_probes()
    if ctx.violations:
        for cls, v in ctx.violations.items():
            print("STILL VIOLATED on the current tree:", cls)
            print(json.dumps(v["witness"], indent=1)[:1500])
        return 1
    print("conforms on the current tree")
    return 0
