"""C01 — every QC test is a total, pure map to one valid flag per point (DESIGN §4 C01)."""
from __future__ import annotations

import numpy as np
import pandas as pd

from vfw import client, contracts, core, gen

LEVEL = "exploration"
SHARDS = {"quick": 4, "thorough": 16}
ANCHORS = [("qartod.py", "location_test"), ("qartod.py", "gross_range_test"), ("qartod.py", "climatology_test"),
           ("qartod.py", "spike_test"), ("qartod.py", "rate_of_change_test"), ("qartod.py", "flat_line_test"),
           ("qartod.py", "attenuated_signal_test"), ("qartod.py", "density_inversion_test"), ("argo.py", "speed_test"),
           ("argo.py", "pressure_increasing_test"), ("axds.py", "valid_range_test")]
RULE = ("all 11 test functions in 19 parameter modes (spike x2 methods, attenuation x {std,range} x {whole,windowed,"
        "min_obs,min_period}, climatology x member shapes, valid_range x inclusivity / open bounds, ...) on series of "
        "length 0,1,2,3,4,5,8,17,64 (+257,1000 thorough) over dyadic values (and magnitudes to 1e150 in thorough) "
        "with NaN / None / masked missing markers and list / ndarray / object-ndarray / masked-array / Series carriers.  Every call is "
        "judged by the boundary client AND by icontract postconditions on the real function: no exception, one flag "
        "per element in the input's shape, alphabet {1,2,3,4,9}, nothing masked, arguments unmodified; then re-run "
        "with all arrays read-only (write trap) and, at the end of a shuffled interleaving of all functions, "
        "re-issued and compared with the recorded flags (history independence); arrays edited in place and passed "
        "again as the same objects must give what fresh copies give (no identity-keyed state); pointwise tests also "
        "under a random permutation.  distinct = (mode, length class, missing marker, carrier, set of flags); trivial = n>=3, "
        "nothing missing, all GOOD.")
ASSUMPTIONS = ["None / masked elements only for functions that document missing-data handling; "
               "pressure_increasing_test gets NaN only", "parameters are valid for the function (rejections are C03/C09/C10/C12/C14's business)"]
EXHAUSTIVE_ALL = False


def modes():
    """name -> (function, builder(values list with None, rng) -> kwargs, pointwise?, documents None/masked?)"""
    TCAR = ["dt64ns", "epoch-float", "dt64ns", "epoch-int", "epoch-list", "series", "dtindex"]
    tstate = {"k": 0}

    def T(n, step=60, dups=False):
        """the time axis in rotating representations (a float64 epoch array is the caller's buffer too); where the test
        derives no sampling step from the axis (dups=True), every other axis has pairs of samples sharing a stamp"""
        tstate["k"] += 1
        secs = gen.regular(n, step)
        if dups and tstate["k"] % 2 == 0:
            secs = [secs[k - (k % 2)] for k in range(n)]
        return gen.times(secs, TCAR[tstate["k"] % len(TCAR)])

    def data(x, how):
        if how == "list-none":
            return list(x)
        if how == "list-nan":
            return gen.nanlist(x)
        if how == "masked":
            a = np.array([0.0 if v is None else v for v in x], dtype=float)
            return np.ma.MaskedArray(np.where([v is None for v in x], np.nan, a) if len(x) else a,
                                     mask=[v is None for v in x] if len(x) else False)
        if how == "object":
            return np.array(list(x), dtype=object)  # what np.array makes of a list holding None, built by the caller
        if how == "series":
            return pd.Series(gen.arr(x))
        if how == "f32":
            return gen.arr(x).astype(np.float32)
        return gen.arr(x)

    clim_members = {
        "abs": [{"tspan": ["2021-01-01", "2021-12-31"], "vspan": [-2, 2]}],
        "abs-z-f": [{"tspan": ["2021-03-01T00:01:00", "2021-03-01T00:10:00"], "vspan": [-2, 2], "fspan": [-4, 4], "zspan": [0, 3]}],
        "month": [{"tspan": [1, 6], "period": "month", "vspan": [-2, 2], "fspan": [-4, 4]}],
        "week-z": [{"tspan": [1, 53], "period": "week", "vspan": [-2, 2], "zspan": [1, 4]}],
        "doy+quarter": [{"tspan": [1, 100], "period": "dayofyear", "vspan": [-2, 2]},
                        {"tspan": [1, 2], "period": "quarter", "vspan": [-1, 1], "fspan": [-3, 3], "zspan": [0, 2]}],
        # (a member's suspect span may reach beyond its fail span: the fail span simply wins there)
        "v-beyond-f": [{"tspan": ["2021-01-01", "2021-12-31"], "vspan": [-5, 5], "fspan": [-4, 4]},
                       {"tspan": [1, 6], "period": "month", "vspan": [-2, 6], "fspan": [-4, 3], "zspan": [0, 3]}],
        "none": [],
    }
    M = {}
    M["gross_range"] = ("qartod.gross_range_test", lambda x, r, h: dict(inp=data(x, h), fail_span=r.choice([[-4, 4], (4, -4), [4, -4]]),
                                                                        suspect_span=r.choice([None, [-2, 2], [2, -2]])), True, True)
    M["valid_range"] = ("axds.valid_range_test", lambda x, r, h: dict(
        inp=data(x, h) if h not in ("list-none", "list-nan", "object") else gen.arr(x), valid_span=r.choice([(-2, 2), (None, 2), (-2, None)]),
        start_inclusive=r.random() < 0.5, end_inclusive=r.random() < 0.5), True, True)
    M["valid_range-list+dtype"] = ("axds.valid_range_test", lambda x, r, h: dict(
        inp=gen.nanlist(x), valid_span=(-2, 2), dtype=np.float64), True, False)
    M["valid_range-object+dtype"] = ("axds.valid_range_test", lambda x, r, h: dict(
        inp=np.array(list(x), dtype=object), valid_span=(-2, 2), dtype=np.float64), True, True)
    M["location"] = ("qartod.location_test", lambda x, r, h: dict(
        lon=data(x, h), lat=data([None if v is None and r.random() < 0.7 else 0.5 * k for k, v in enumerate(x)], h),
        bbox=r.choice([(-180, -90, 180, 90), [-3, -1, 3, 20]]), range_max=r.choice([None, 1000.0, 1e6])), False, True)
    M["location-repeated-fix"] = ("qartod.location_test", lambda x, r, h: dict(
        lon=data([None if (v is None and k > 1) else 10.0 + 0.5 * (k // 3) for k, v in enumerate(x)], h),
        lat=data([None if (v is None and k > 1) else 50.0 for k, v in enumerate(x)], h), range_max=r.choice([1000.0, 1e6])), False, True)
    M["speed-repeated-fix"] = ("argo.speed_test", lambda x, r, h: dict(
        lon=data([None if (v is None and k > 1) else 10.0 + 0.5 * (k // 3) for k, v in enumerate(x)], h),
        lat=data([None if (v is None and k > 1) else 50.0 for k, v in enumerate(x)], h), tinp=T(len(x)),
        suspect_threshold=1, fail_threshold=3), False, True)
    M["location-default"] = ("qartod.location_test", lambda x, r, h: dict(lon=data(x, h), lat=data(x, h)), False, True)
    for k, mem in clim_members.items():
        M[f"climatology-{k}"] = ("qartod.climatology_test", lambda x, r, h, mem=mem: dict(
            config=mem, inp=data(x, h), tinp=T(len(x), dups=True),
            zinp=gen.arr([None if r.random() < 0.3 else float(k % 5) for k in range(len(x))])), k == "none", True)
    for meth in ("average", "differential"):
        M[f"spike-{meth}"] = ("qartod.spike_test", lambda x, r, h, meth=meth: dict(
            inp=data(x, h), suspect_threshold=r.choice([None, 0, 1]), fail_threshold=r.choice([None, 0, 2]), method=meth),
            False, True)
    M["rate_of_change"] = ("qartod.rate_of_change_test", lambda x, r, h: dict(inp=data(x, h), tinp=T(len(x)), threshold=r.choice([0, 0.01, 5])), False, True)
    M["flat_line"] = ("qartod.flat_line_test", lambda x, r, h: dict(
        inp=data(x, h), tinp=T(len(x)), suspect_threshold=r.choice([0, 60, 300]), fail_threshold=r.choice([0, 120, 60, 6000]),
        tolerance=r.choice([0, 0.5, 10])), False, True)
    for kind in ("std", "range"):
        M[f"attenuated-{kind}-whole"] = ("qartod.attenuated_signal_test", lambda x, r, h, kind=kind: dict(
            inp=data(x, h), tinp=T(len(x)), suspect_threshold=1, fail_threshold=r.choice([0.25, 2]), check_type=kind), False, True)
        M[f"attenuated-{kind}-window"] = ("qartod.attenuated_signal_test", lambda x, r, h, kind=kind: dict(
            inp=data(x, h), tinp=T(len(x), dups=True), suspect_threshold=1, fail_threshold=0.25, check_type=kind,
            test_period=r.choice([60, 150, 600]), **r.choice([{}, {"min_obs": 2}, {"min_obs": 1}])), False, True)
        M[f"attenuated-{kind}-minperiod"] = ("qartod.attenuated_signal_test", lambda x, r, h, kind=kind: dict(
            inp=data(x, h), tinp=T(max(len(x), 0)), suspect_threshold=1, fail_threshold=0.25, check_type=kind,
            test_period=300, min_period=r.choice([60, 150])), False, True)
    M["density_inversion"] = ("qartod.density_inversion_test", lambda x, r, h: dict(
        inp=data(x, h), zinp=gen.arr([None if r.random() < 0.2 else float(k) for k in range(len(x))]),
        suspect_threshold=r.choice([None, 0.5]), fail_threshold=r.choice([None, -0.5])), False, True)
    M["speed"] = ("argo.speed_test", lambda x, r, h: dict(
        lon=data(x, h), lat=data([None if v is None and r.random() < 0.7 else 0.25 * k for k, v in enumerate(x)], h),
        tinp=T(len(x)), suspect_threshold=1, fail_threshold=r.choice([3, 0.5])), False, True)
    M["pressure_increasing"] = ("argo.pressure_increasing_test", lambda x, r, h: dict(
        inp=gen.arr(x) if h != "list-nan" else gen.nanlist(x)), False, False)
    return M


def freeze(kw):
    out = {}
    for k, v in kw.items():
        if isinstance(v, np.ma.MaskedArray):
            v = v.copy()
            v.flags.writeable = False
            np.ma.getdata(v).flags.writeable = False
            m = np.ma.getmaskarray(v)
            m.flags.writeable = False
        elif isinstance(v, np.ndarray):
            v = v.copy()
            v.flags.writeable = False
        elif isinstance(v, pd.Series):
            a = v.to_numpy().copy()
            a.flags.writeable = False
            v = pd.Series(a, index=v.index, copy=False)
        out[k] = v
    return out


def run(ctx) -> None:
    rng = ctx.rng
    mon = contracts.install()
    ctx.require("c01.calls", 2000)
    ctx.require("c01.contract_result_evaluations", 2000)
    ctx.require("c01.write_trap_reruns", 1000)
    ctx.require("c01.history_replays", 100)
    ctx.require("c01.permutation_pairs", 100)
    ctx.require("c01.buffer_reuse_pairs", 100)
    M = modes()
    names = sorted(M)
    lengths = ctx.pick([0, 1, 2, 3, 4, 5, 8, 17, 64], [0, 1, 2, 3, 4, 5, 8, 17, 64, 257, 1000])
    history = []  # (mode, kwargs, flags) to be re-issued at the end
    reps = ctx.pick(3, 6)
    plan = [(m, n, h, r) for m in names for n in lengths
            for h in ("ndarray", "list-none", "list-nan", "masked", "series", "f32", "object") for r in range(reps)]
    rng.shuffle(plan)  # interleave all functions
    for idx, (mname, n, how, _r) in enumerate(plan):
        if not ctx.mine(idx):
            continue
        fname, build, pointwise, docs_missing = M[mname]
        if how in ("list-none", "masked", "object") and not docs_missing:
            continue
        if n >= 257 and how != "ndarray":
            continue
        pm = rng.choice([0, 0.2, 0.6, 1.0])
        pool = [0.0, 0.5, 1.0, -1.5, 2.0, 3.0, -4.5, 0.25]
        if rng.random() < 0.25:
            pool = [rng.choice([0.1, 7.7, 0.3, 1013.25, -2.2, 1e-3])]  # a stuck sensor reporting one (non-dyadic) value
        if ctx.thorough and rng.random() < 0.15:
            pool = pool + [1e150, -1e150, 1e-300, 1e15]
        x = [None if rng.random() < pm else rng.choice(pool) for _ in range(n)]
        # (min_period on fewer than two points has no sampling step: no exact flags are claimed, but the call is legal
        #  and must still return one valid flag per point without raising)
        try:
            kw = build(x, rng, how)
        except Exception as e:  # noqa: BLE001
            ctx.notes.append(f"builder failed for {mname}: {e!r}")
            continue
        before_broken = len(mon.broken)
        o = client.invoke(fname, kw)
        ctx.count("c01.calls")
        case = {"mode": mname, "func": fname, "n": n, "carrier": how, "x": x if n <= 17 else f"<{n} values>",
                "params": core.jsonable({k: v for k, v in kw.items() if k not in ("inp", "tinp", "zinp", "lon", "lat")})}
        if o.kind == "raise":
            ctx.violation(f"C01:raised:{fname}:{o.exc_type}@{o.where}", {"kind": "call", **case, "kwargs": core.jsonable(kw) if n <= 17 else None,
                                                                        "observed": o.brief()})
            ctx.case(f"{mname}|n{gen.nclass(n)}|{how}|raise")
            continue
        for b in mon.broken[before_broken:]:
            ctx.violation(f"C01:contract:{b['func']}:{b['what']}", {"kind": "call", **case, "contract": b,
                                                                    "kwargs": core.jsonable(kw) if n <= 17 else None,
                                                                    "observed": o.brief() if n <= 17 else None})
        # client-side postconditions (independent of the contract)
        fl = o.flags
        problems = []
        if fl is None:
            problems.append("not array-like")
        else:
            if fl.ndim != 1 or fl.shape != (n,):
                problems.append(f"shape {fl.shape} for {n} inputs")
            if o.masked.any():
                problems.append("masked flags")
            if any(v not in core.ALPHABET for v in np.unique(fl).tolist()):
                problems.append(f"alphabet {np.unique(fl).tolist()}")
        if o.mutated:
            problems.append(f"arguments modified: {o.mutated}")
        for p in problems:
            ctx.violation(f"C01:{fname}:{p.split(' ')[0]}", {"kind": "call", **case, "problem": p, "observed": o.brief() if n <= 17 else None})
        ctx.flag_hist(mname.split("-")[0], fl.reshape(-1).tolist() if fl is not None else [])
        fs = gen.flagset(o)
        ctx.case(f"{mname}|n{gen.nclass(n)}|m{gen.mclass(x) if n else 'none'}|{how}|{fs}",
                 trivial=n >= 3 and fs == "1" and None not in x, sample={**case, "observed": o.brief()})
        # write trap + repeatability
        try:
            o2 = client.invoke(fname, freeze(kw), check_purity=False)
            ctx.count("c01.write_trap_reruns")
            if o2.kind == "raise":
                ctx.violation(f"C01:write-trap:{fname}:{o2.exc_type}@{o2.where}",
                              {"kind": "call", **case, "note": "second execution with read-only arguments", "observed": o2.brief()})
            elif fl is not None and (o2.flags is None or o2.flags.tolist() != fl.tolist()):
                ctx.violation(f"C01:not-repeatable:{fname}", {"kind": "call", **case, "first": o.brief(), "second": o2.brief()})
        except Exception as e:  # noqa: BLE001
            ctx.notes.append(f"freeze failed: {e!r}")
        # buffer reuse: the caller edits its own arrays in place and calls again with the SAME objects
        # (streaming use); the result must equal that of a call on fresh copies holding the same values
        if fl is not None and n >= 2 and how == "ndarray" and rng.random() < 0.5:
            kwb = {k: (v.copy() if isinstance(v, np.ndarray) else v) for k, v in kw.items()}
            client.invoke(fname, kwb, check_purity=False)  # first use of these very objects
            for k, v in kwb.items():
                if isinstance(v, np.ndarray) and v.flags.writeable and k in ("inp", "tinp", "zinp", "lon", "lat"):
                    if v.dtype.kind == "M":
                        v[n // 2:] += np.timedelta64(rng.choice([1, 86400, 3600 * 30]), "s")
                    elif v.dtype.kind == "f":
                        v[rng.randrange(n)] = rng.choice(pool)
                        v[::2] += rng.choice([0.25, -1.0, 2.0])
            fresh = {k: (v.copy() if isinstance(v, np.ndarray) else v) for k, v in kwb.items()}
            o_same, o_fresh = client.invoke(fname, kwb, check_purity=False), client.invoke(fname, fresh, check_purity=False)
            ctx.count("c01.buffer_reuse_pairs")
            a = None if o_same.kind != "return" else o_same.flags.tolist()
            b = None if o_fresh.kind != "return" else o_fresh.flags.tolist()
            if a != b:
                ctx.violation(f"C01:stale-state-after-in-place-edit:{fname}",
                              {"kind": "history", **case, "note": "same array objects edited in place and passed again",
                               "same_objects": o_same.brief(), "fresh_copies": o_fresh.brief(),
                               "edited_kwargs": core.jsonable(fresh) if n <= 17 else None})
        if fl is not None and n <= 17 and rng.random() < 0.2:
            history.append((mname, kw, fl.tolist(), case))
        # permutation relation for pointwise tests: f(pi x) = pi f(x)
        if pointwise and n >= 2 and fl is not None and rng.random() < 0.5:
            pi = list(range(n))
            rng.shuffle(pi)
            kw2 = dict(kw)
            for k in ("inp", "tinp", "zinp"):
                if k in kw2 and hasattr(kw2[k], "__len__") and len(kw2[k]) == n:
                    v = kw2[k]
                    kw2[k] = [v[p] for p in pi] if isinstance(v, list) else (
                        v.iloc[pi].reset_index(drop=True) if isinstance(v, pd.Series) else v[pi])
            o3 = client.invoke(fname, kw2, check_purity=False)
            ctx.count("c01.permutation_pairs")
            if o3.kind != "return" or o3.flags.tolist() != [fl.tolist()[p] for p in pi]:
                ctx.violation(f"C01:input-order:{fname}", {"kind": "relation", **case, "permutation": pi,
                                                          "flags": fl.tolist(), "flags_of_permuted": o3.brief()})
    # N-D inputs of the pointwise tests: one flag per element, in the input's shape, whatever the memory layout
    if ctx.shard == 0 or ctx.thorough:
        for _ in range(ctx.pick(60, 300)):
            r_, c_ = rng.choice([(2, 3), (3, 2), (1, 4), (4, 1), (3, 3), (2, 2)])
            flat = [None if rng.random() < 0.2 else rng.choice([0.0, 0.5, 1.0, -1.5, 2.0, 3.0, -4.5]) for _ in range(r_ * c_)]
            base = gen.arr(flat)
            layouts = {"C": base.reshape(r_, c_).copy(), "F": np.asfortranarray(base.reshape(r_, c_)),
                       "T-view": base.reshape(c_, r_).T if False else np.ascontiguousarray(base.reshape(r_, c_).T).T,
                       "nested-list": [[flat[i * c_ + j] for j in range(c_)] for i in range(r_)],
                       "f32-F": np.asfortranarray(base.reshape(r_, c_).astype(np.float32)),
                       "masked-F": np.ma.masked_invalid(np.asfortranarray(base.reshape(r_, c_)))}
            for fname, extra in (("qartod.gross_range_test", {"fail_span": [-4, 2.5], "suspect_span": [-1, 1]}),
                                 ("axds.valid_range_test", {"valid_span": (-1, 2)}),
                                 ("qartod.location_test", {})):
                ref_kw = {"inp": base, **extra} if "location" not in fname else {"lon": base, "lat": base}
                ref = client.invoke(fname, ref_kw, check_purity=False)
                if ref.kind != "return":
                    continue
                want = ref.flags.reshape(r_, c_).tolist()
                for lname, arr_ in layouts.items():
                    if fname == "axds.valid_range_test" and lname == "nested-list":
                        continue
                    kw = {"inp": arr_, **extra} if "location" not in fname else {"lon": arr_, "lat": arr_}
                    if "location" in fname and lname in ("F", "masked-F") and rng.random() < 0.5:
                        kw["lat"] = layouts["C"]  # same logical grid, other memory layout
                    o = client.invoke(fname, kw)
                    ctx.count("c01.nd_layout_calls")
                    ctx.case(f"nd|{fname}|{lname}|{r_}x{c_}")
                    got = None if o.kind != "return" else np.asarray(o.flags).tolist()
                    if got != want or (o.kind == "return" and o.masked.any()):
                        ctx.violation(f"C01:nd-layout:{fname}:{lname}",
                                      {"kind": "call", "func": fname, "layout": lname, "shape": [r_, c_], "values(C order)": flat,
                                       "expected": want, "observed": o.brief()})
    # history independence: re-issue recorded calls after everything else ran in between
    rng.shuffle(history)
    for mname, kw, flags, case in history[: ctx.pick(400, 2000)]:
        o = client.invoke(M[mname][0], kw, check_purity=False)
        ctx.count("c01.history_replays")
        if o.kind != "return" or o.flags.tolist() != flags:
            ctx.violation(f"C01:history-dependent:{M[mname][0]}", {"kind": "call", **case, "first": flags, "later": o.brief()})
    # a parameter OBJECT with a life of its own: a ClimatologyConfig used, extended with add(), and used again gives what an
    # equal config built in one go gives (the flags are a function of the arguments as they are at the time of the call)
    import ioos_qc.qartod as q  # noqa: PLC0415

    for _ in range(ctx.pick(40, 200)):
        n = rng.choice([3, 4, 6, 12])
        months = sorted(rng.sample(range(1, 13), n))
        t_ = np.array([f"2021-{m_:02d}-{rng.randrange(1, 28):02d}" for m_ in months], dtype="datetime64[ns]")
        x_ = np.array([rng.choice([5.0, 50.0, -3.0, 9.5]) for _ in range(n)])
        z_ = np.array([rng.choice([np.nan, 1.0, 20.0]) for _ in range(n)])
        cut = rng.randrange(2, 12)
        mem = [dict(tspan=(1, cut), vspan=(0, 10), period="month"),
               dict(tspan=(cut + 1, 12), vspan=(0, 10), fspan=(-5, 40), period="month"),
               dict(tspan=(rng.randrange(1, 7), 12), vspan=(4, 6), period="month", zspan=(0, 10))][: rng.choice([2, 3])]
        used, fresh = q.ClimatologyConfig(), q.ClimatologyConfig()
        k_ = rng.randrange(0, len(mem))
        for m_ in mem[:k_]:
            used.add(**m_)
        client.invoke("qartod.climatology_test", {"config": used, "inp": x_, "tinp": t_, "zinp": z_}, check_purity=False)
        for m_ in mem[k_:]:
            used.add(**m_)
        for m_ in mem:
            fresh.add(**m_)
        o_u = client.invoke("qartod.climatology_test", {"config": used, "inp": x_, "tinp": t_, "zinp": z_}, check_purity=False)
        o_f = client.invoke("qartod.climatology_test", {"config": fresh, "inp": x_, "tinp": t_, "zinp": z_}, check_purity=False)
        ctx.count("c01.calls", 3)
        ctx.count("c01.config_object_use_add_use_histories")
        a_ = None if o_u.kind != "return" else o_u.flags.tolist()
        b_ = None if o_f.kind != "return" else o_f.flags.tolist()
        ctx.case(f"climatology-object|use-add-use|k{k_}of{len(mem)}|n{n}")
        if a_ != b_:
            ctx.violation("C01:history-dependent:qartod.climatology_test:config-object-extended-after-use",
                          {"kind": "history", "members": core.jsonable(mem), "members_present_at_first_use": k_, "t": [str(v) for v in t_],
                           "x": x_.tolist(), "z": core.jsonable(z_), "used_then_extended": o_u.brief(), "built_in_one_go": o_f.brief()})
    ctx.counters["c01.contract_result_evaluations"] += sum(v for k, v in mon.evals.items() if k.endswith(":result"))
    ctx.counters["c01.contract_argument_evaluations"] += sum(v for k, v in mon.evals.items() if k.endswith("-unmodified"))
    for k, v in mon.evals.items():
        if k.endswith(":result"):
            ctx.counters[f"c01.contract.{k}"] += v

    if ctx.thorough and ctx.shard == 0:
        from vfw import memcheck, repo_tests  # noqa: PLC0415

        repo_tests.run_under_contracts(ctx)
        memcheck.run(ctx, "all")
