"""L2 in-situ contracts (DESIGN §2.1): icontract snapshot/ensure wrappers installed on the
module attributes of the real test functions from outside the repository.  Conditions
*record and return True* so one run collects every violation; every contract counts its
evaluations (zero evaluations = inconclusive for whoever relies on it)."""
from __future__ import annotations

import importlib
from collections import Counter

import numpy as np

from vfw import core

core.setup_paths()
import icontract  # noqa: E402

ALPHABET = {1, 2, 3, 4, 9}


class ContractBroken(Exception):
    pass


class Monitor:
    def __init__(self) -> None:
        self.evals = Counter()  # contract name -> evaluations
        self.broken = []  # dicts
        self.current = None  # name of the function being judged (set by the pre-snapshot)

    def report(self, func, what, detail) -> None:
        if len(self.broken) < 2000:
            self.broken.append({"func": func, "what": what, "detail": detail})


MON = Monitor()


def _snap(v):
    if v is None:
        return None
    try:
        import pandas as pd

        if isinstance(v, (pd.Series, pd.Index)):
            v = v.to_numpy()
    except Exception:  # noqa: BLE001
        pass
    if isinstance(v, np.ndarray):
        return ("nd", core.digest(v))
    if hasattr(v, "members"):
        return ("clim", repr([tuple(m) for m in v.members]))
    try:
        return ("repr", repr(v))
    except Exception:  # noqa: BLE001
        return None


# ---- named snapshot functions (icontract binds by parameter name)
def snap_inp(inp):
    return _snap(inp)


def snap_tinp(tinp):
    return _snap(tinp)


def snap_zinp(zinp):
    return _snap(zinp)


def snap_lon(lon):
    return _snap(lon)


def snap_lat(lat):
    return _snap(lat)


def snap_config(config):
    return _snap(config)


def snap_vectors(vectors):
    return [_snap(v) for v in vectors]


def _nshape(v):
    try:
        return np.shape(np.asarray(v if not hasattr(v, "to_numpy") else v.to_numpy(), dtype=object))
    except Exception:  # noqa: BLE001
        return None


def _judge_result(fname, result, primary):
    MON.evals[f"{fname}:result"] += 1
    try:
        data = np.asarray(np.ma.getdata(result))
        mask = np.ma.getmaskarray(result)
    except Exception as e:  # noqa: BLE001
        MON.report(fname, "result-not-array", repr(e))
        return
    if mask.any():
        MON.report(fname, "flag-hidden-behind-mask", {"masked_positions": np.flatnonzero(mask.reshape(-1)).tolist()[:10]})
    vals = set(np.unique(data[~mask]).tolist()) if data.size else set()
    bad = [v for v in vals if v not in ALPHABET]
    if bad:
        MON.report(fname, "flag-outside-alphabet", {"values": [repr(v) for v in bad[:5]]})
    want = _nshape(primary)
    if want is not None and tuple(data.shape) != tuple(want):
        MON.report(fname, "shape-differs-from-input", {"input_shape": list(want), "result_shape": list(data.shape)})


def _unchanged(fname, argname, now, old) -> None:
    MON.evals[f"{fname}:{argname}-unmodified"] += 1
    if old is not None and _snap(now) != old:
        MON.report(fname, f"argument-modified:{argname}", {})


def make_post(fname, argnames, primary):
    """Build a named postcondition with exactly the parameter names icontract must bind."""
    params = ", ".join(["result", "OLD", *argnames])
    src = [f"def post_{fname}({params}):"]
    src.append(f"    _judge_result({fname!r}, result, {primary})")
    for a in argnames:
        src.append(f"    _unchanged({fname!r}, {a!r}, {a}, OLD.s_{a})")
    src.append("    return True")
    ns = {"_judge_result": _judge_result, "_unchanged": _unchanged}
    exec("\n".join(src), ns)  # noqa: S102 - generated from a fixed table below
    return ns[f"post_{fname}"]


SNAPS = {"inp": snap_inp, "tinp": snap_tinp, "zinp": snap_zinp, "lon": snap_lon, "lat": snap_lat,
         "config": snap_config}

# (module, function, argument names to snapshot, primary input that fixes the result shape)
TABLE = [
    ("qartod", "location_test", ["lon", "lat"], "lon"),
    ("qartod", "gross_range_test", ["inp"], "inp"),
    ("qartod", "climatology_test", ["config", "inp", "tinp", "zinp"], "inp"),
    ("qartod", "spike_test", ["inp"], "inp"),
    ("qartod", "rate_of_change_test", ["inp", "tinp"], "inp"),
    ("qartod", "flat_line_test", ["inp", "tinp"], "inp"),
    ("qartod", "attenuated_signal_test", ["inp", "tinp"], "inp"),
    ("qartod", "density_inversion_test", ["inp", "zinp"], "inp"),
    ("argo", "speed_test", ["lon", "lat", "tinp"], "lon"),
    ("argo", "pressure_increasing_test", ["inp"], "inp"),
    ("axds", "valid_range_test", ["inp"], "inp"),
]


def post_compare(result, vectors, OLD):
    MON.evals["qartod_compare:result"] += 1
    data, mask = np.asarray(np.ma.getdata(result)), np.ma.getmaskarray(result)
    if mask.any():
        MON.report("qartod_compare", "flag-hidden-behind-mask", {})
    bad = [v for v in np.unique(data).tolist() if v not in ALPHABET]
    if bad:
        MON.report("qartod_compare", "flag-outside-alphabet", {"values": bad[:5]})
    if [_snap(v) for v in vectors] != OLD.s_vectors:
        MON.report("qartod_compare", "argument-modified:vectors", {})
    return True


INSTALLED = []


def install():
    """Replace the module attributes by contract-carrying wrappers.  Returns the monitor."""
    if INSTALLED:
        return MON
    for modname, fname, argnames, primary in TABLE:
        mod = importlib.import_module(f"ioos_qc.{modname}")
        real = getattr(mod, fname)
        wrapped = icontract.ensure(make_post(fname, argnames, primary), error=ContractBroken)(real)
        for a in argnames:
            wrapped = icontract.snapshot(SNAPS[a], name=f"s_{a}")(wrapped)
        setattr(mod, fname, wrapped)
        INSTALLED.append((mod, fname, real))
    import ioos_qc.qartod as q

    real = q.qartod_compare
    w = icontract.snapshot(snap_vectors, name="s_vectors")(icontract.ensure(post_compare, error=ContractBroken)(real))
    q.qartod_compare = w
    INSTALLED.append((q, "qartod_compare", real))
    return MON


def uninstall() -> None:
    while INSTALLED:
        mod, fname, real = INSTALLED.pop()
        setattr(mod, fname, real)
