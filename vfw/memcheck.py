"""valgrind memcheck over a compact workload (thorough tier; DESIGN §2.4)."""
from __future__ import annotations

import os
import re
import subprocess
import sys
import tempfile
from pathlib import Path

from vfw import core


def run(ctx, which, timeout=1500) -> None:
    log = Path(tempfile.mkstemp(prefix="vf-memcheck-", suffix=".log", dir=core.OUT)[1])
    env = dict(os.environ, PYTHONMALLOC="malloc", IOOS_QC_SRC=str(core.SRC), NUMBA_DISABLE_JIT="1")
    cmd = ["valgrind", "--tool=memcheck", "--error-exitcode=97", f"--log-file={log}", "--num-callers=25",
           sys.executable, "-m", "vfw.memcheck_workload", which]
    try:
        p = subprocess.run(cmd, env=env, cwd=core.ROOT, timeout=timeout, capture_output=True, text=True, check=False)
    except (subprocess.TimeoutExpired, FileNotFoundError) as e:
        ctx.notes.append(f"memcheck did not complete: {e!r}")
        log.unlink(missing_ok=True)
        return
    text = log.read_text(errors="replace") if log.exists() else ""
    log.unlink(missing_ok=True)
    m = re.search(r"ERROR SUMMARY: (\d+) errors", text)
    calls = re.search(r"MEMCHECK-WORKLOAD calls=(\d+)", p.stdout or "")
    if m is None or calls is None:
        ctx.notes.append(f"memcheck produced no summary (rc={p.returncode}): {(p.stderr or '')[-400:]}")
        return
    ctx.count("memcheck.runs_completed")
    ctx.count("memcheck.calls_under_valgrind", int(calls.group(1)))
    nerr = int(m.group(1))
    ctx.count("memcheck.errors", nerr)
    if nerr:
        blocks = re.findall(r"==\d+== (Invalid (?:read|write) of size \d+|Conditional jump[^\n]*|Use of uninitialised[^\n]*)", text)
        first = text[text.find(blocks[0]) - 20: text.find(blocks[0]) + 1800] if blocks else text[-1800:]
        ctx.violation(f"{ctx.pid}:memcheck:{blocks[0] if blocks else 'error'}",
                      {"kind": "memcheck", "workload": which, "errors": nerr, "first_report": first})
