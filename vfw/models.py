"""Reference models: deliberately naive per-point Python, written from the property
statements (properties.jsonl), not from the implementation.

Every model returns, per position, the *set of admissible flags* (DESIGN.md §3.1): a
singleton where the statement is definite, larger where it leaves freedom.  Inputs are
plain Python lists; a missing value is None; times are integer epoch seconds.
ANY (the whole alphabet) marks positions the statement does not constrain.
"""
from __future__ import annotations

import datetime as dt
import math
from fractions import Fraction

G, U, S, F, M = 1, 2, 3, 4, 9
ANY = frozenset((G, U, S, F, M))
REL = 1e-9  # guard band (relative) for statistics the implementation legitimately rounds


class Reject(Exception):
    """The statement says the call is rejected with this exception type."""

    def __init__(self, exc_type) -> None:
        super().__init__(exc_type.__name__)
        self.exc_type = exc_type


def miss(v) -> bool:
    return v is None or (isinstance(v, float) and v != v)


def fs(*flags):
    return frozenset(flags)


def near(a, b, rel=REL, abs_=0.0) -> bool:
    return abs(a - b) <= max(rel * max(abs(a), abs(b)), abs_)


# --------------------------------------------------------------------------- C03


def gross_range(x, fail_span, suspect_span=None):
    flo, fhi = sorted(fail_span)
    if suspect_span is not None:
        slo, shi = sorted(suspect_span)
        if slo < flo or shi > fhi:
            raise Reject(ValueError)
    out = []
    for v in x:
        if miss(v):
            out.append(fs(M))
        elif v < flo or v > fhi:
            out.append(fs(F))
        elif suspect_span is not None and (v < slo or v > shi):
            out.append(fs(S))
        else:
            out.append(fs(G))
    return out


def valid_range(x, lo, hi, start_inclusive=True, end_inclusive=False, is_missing=miss):
    out = []
    for v in x:
        if is_missing(v):
            out.append(fs(M))
            continue
        bad = False
        if lo is not None:
            bad |= (v < lo) if start_inclusive else (v <= lo)
        if hi is not None:
            bad |= (v > hi) if end_inclusive else (v >= hi)
        out.append(fs(F) if bad else fs(G))
    return out


# --------------------------------------------------------------------------- C04

PRECEDENCE = [M, U, G, S, F]  # ascending


def compare(vectors):
    """vectors: lists whose entries are ints (flags or non-flags) or None (= masked)."""
    n = len(vectors[0])
    out = []
    for i in range(n):
        best = -1
        for v in vectors:
            e = v[i]
            if e is None or e not in PRECEDENCE:
                continue
            best = max(best, PRECEDENCE.index(e))
        out.append(M if best < 0 else PRECEDENCE[best])
    return out


# --------------------------------------------------------------------------- C14 / C10 geodesy


def geodist(lat1, lon1, lat2, lon2):
    from geographiclib.geodesic import Geodesic

    return Geodesic.WGS84.Inverse(lat1, lon1, lat2, lon2)["s12"]


def location(lon, lat, bbox=(-180, -90, 180, 90), range_max=None):
    minx, miny, maxx, maxy = bbox
    out = []
    for i in range(len(lon)):
        ml, mt = miss(lon[i]), miss(lat[i])
        if ml and mt:
            out.append(fs(M))
            continue
        if ml != mt:
            out.append(fs(F))
            continue
        if lon[i] < minx or lon[i] > maxx or lat[i] < miny or lat[i] > maxy:
            out.append(fs(F))
            continue
        if range_max is not None and i > 0 and not miss(lon[i - 1]) and not miss(lat[i - 1]):
            d = geodist(lat[i - 1], lon[i - 1], lat[i], lon[i])
            if near(d, range_max, rel=1e-9, abs_=1e-6):
                out.append(fs(S, G))
            elif d > range_max:
                out.append(fs(S))
            else:
                out.append(fs(G))
        else:
            out.append(fs(G))
    return out


def speed(lon, lat, t, suspect_threshold, fail_threshold):
    n = len(lon)
    out = []
    for i in range(n):
        full = not miss(lon[i]) and not miss(lat[i])
        both_missing = miss(lon[i]) and miss(lat[i])
        if i == 0:
            out.append(fs(U))  # "flags the first point UNKNOWN" -- whatever was recorded there
            continue
        if both_missing:
            out.append(fs(M))
            continue
        pfull = not miss(lon[i - 1]) and not miss(lat[i - 1])
        if full and pfull:
            d = geodist(lat[i - 1], lon[i - 1], lat[i], lon[i])
            secs = t[i] - t[i - 1]
            s = d / secs
            adm = set()
            # guard band: distances are rounded by the implementation's vectorised path
            cands = [s]
            if near(s, fail_threshold, rel=1e-9, abs_=1e-9) or near(s, suspect_threshold, rel=1e-9, abs_=1e-9):
                cands = [s * (1 - 2e-9) - 2e-9, s * (1 + 2e-9) + 2e-9]
                for thr in (suspect_threshold, fail_threshold):
                    if cands[0] <= thr <= cands[1]:
                        cands += [thr, math.nextafter(thr, math.inf)]
            for c in cands:
                if c > fail_threshold:
                    adm.add(F)
                elif c > suspect_threshold:
                    adm.add(S)
                else:
                    adm.add(G)
            out.append(frozenset(adm))
        elif full:  # predecessor incomplete: the statement leaves this open; never "evaluated bad"
            out.append(fs(M, U, G))
        else:  # exactly one coordinate: not constrained by C10
            out.append(ANY)
    return out


# --------------------------------------------------------------------------- C08


def _period_value(ts: int, period: str):
    d = dt.datetime(1970, 1, 1) + dt.timedelta(seconds=ts)
    if period in ("week", "weekofyear"):
        return d.isocalendar()[1]
    if period == "month":
        return d.month
    if period == "dayofyear":
        return d.timetuple().tm_yday
    if period == "quarter":
        return (d.month - 1) // 3 + 1
    if period == "dayofweek":
        return d.weekday()
    if period == "year":
        return d.year
    if period == "day":
        return d.day
    if period == "hour":
        return d.hour
    raise KeyError(period)


def climatology(members, x, t, z):
    """members: list of dicts tspan (epoch seconds, or numbers when period), vspan, fspan|None,
    zspan|None, period|None.  z may be None (no depth given) or a list."""
    out = []
    for i, v in enumerate(x):
        if miss(v):
            # nothing matches a missing value's judgement: MISSING; UNKNOWN is what the test
            # reports for "not evaluated" and is admissible only when no member matches at all
            matched = False
            for m in members:
                if _clim_applies(m, t[i], None if z is None else z[i]):
                    matched = True
            out.append(fs(M) if matched else fs(M, U))
            continue
        flag = U
        for m in members:
            if not _clim_applies(m, t[i], None if z is None else z[i]):
                continue
            vlo, vhi = sorted(m["vspan"])
            if m.get("fspan") is not None:
                flo, fhi = sorted(m["fspan"])
                if v < flo or v > fhi:
                    flag = F
                    continue
            flag = S if (v < vlo or v > vhi) else G
        out.append(fs(flag))
    return out


def _clim_applies(m, ts, zi) -> bool:
    lo, hi = sorted(m["tspan"])
    tv = ts if m.get("period") is None else _period_value(ts, m["period"])
    if not (lo <= tv <= hi):
        return False
    if m.get("zspan") is not None:
        if miss(zi):
            return False
        zlo, zhi = sorted(m["zspan"])
        if not (zlo <= zi <= zhi):
            return False
    return True


# --------------------------------------------------------------------------- C09


def spike_d(a, b, c, method):
    if method == "average":
        return abs(b - (a + c) / 2)
    s1, s2 = b - a, c - b
    if s1 * s2 < 0:
        return min(abs(s1), abs(s2))
    return 0.0


def spike(x, suspect_threshold=None, fail_threshold=None, method="average"):
    if method not in ("average", "differential"):
        raise Reject(ValueError)
    n = len(x)
    out = []
    for i in range(n):
        if i in (0, n - 1):
            out.append(fs(U, M) if miss(x[i]) else fs(U))
            continue
        if miss(x[i]):
            out.append(fs(M))
            continue
        if miss(x[i - 1]) or miss(x[i + 1]):
            # a needed neighbour is missing: cannot be judged.  The statement only defines the
            # flag when both neighbours are present; MISSING (C02) is the documented answer.
            out.append(fs(M))
            continue
        d = spike_d(x[i - 1], x[i], x[i + 1], method)
        if fail_threshold is not None and d > fail_threshold:
            out.append(fs(F))
        elif suspect_threshold is not None and d > suspect_threshold:
            out.append(fs(S))
        else:
            out.append(fs(G))
    return out


# --------------------------------------------------------------------------- C10


def rate_of_change(x, t, threshold):
    if len(x) != len(t):
        raise Reject(ValueError)
    out = []
    for i, v in enumerate(x):
        if miss(v):
            out.append(fs(M))
        elif i == 0 or miss(x[i - 1]):
            out.append(fs(G))
        else:
            # "|x[n]-x[n-1]| divided by the whole seconds elapsed exceeds the threshold", in float64 arithmetic:
            # the difference of dyadic values is exact, the quotient is the correctly rounded IEEE quotient
            r = abs(v - x[i - 1]) / float(t[i] - t[i - 1])
            out.append(fs(S) if r > threshold else fs(G))
    return out


# --------------------------------------------------------------------------- C11


def flat_line(x, step, suspect_threshold, fail_threshold, tolerance):
    n = len(x)
    out = []
    for i in range(n):
        if miss(x[i]):
            out.append(fs(M))
            continue
        flag = G
        if n >= 3:
            for thr, fl in ((suspect_threshold, S), (fail_threshold, F)):
                k = math.floor(thr / step)
                if i >= k:
                    w = [v for v in x[i - k: i + 1] if not miss(v)]
                    if w and max(w) - min(w) < tolerance:
                        flag = fl
        out.append(fs(flag))
    return out


# --------------------------------------------------------------------------- C12


def _pstdev(w):
    mu = sum(w) / len(w)
    return math.sqrt(sum((v - mu) ** 2 for v in w) / len(w))


def _sstdev(w):
    if len(w) < 2:
        return None
    mu = sum(w) / len(w)
    return math.sqrt(sum((v - mu) ** 2 for v in w) / (len(w) - 1))


def _median(vals):
    s = sorted(vals)
    k = len(s)
    return s[k // 2] if k % 2 else (s[k // 2 - 1] + s[k // 2]) / 2


def attenuated(x, t, suspect_threshold, fail_threshold, test_period=None, min_obs=None,
               min_period=None, check_type="std"):
    if check_type not in ("std", "range"):
        raise Reject(ValueError)
    import bisect

    n = len(x)
    present_all = [v for v in x if not miss(v)]
    increasing = all(t[k] < t[k + 1] for k in range(n - 1)) if test_period else False
    whole = None
    if not test_period and present_all:
        whole = _pstdev(present_all) if check_type == "std" else max(present_all) - min(present_all)
    out = []
    for i in range(n):
        if miss(x[i]):
            out.append(fs(M))
            continue
        missing_in_window = False
        if not test_period:
            w = present_all
            s = whole
        else:
            if increasing:  # same set as the definition below, found by bisection
                idx = range(bisect.bisect_right(t, t[i] - test_period), i + 1)
            else:
                idx = [j for j in range(n) if t[i] - test_period < t[j] <= t[i]]
            w = [x[j] for j in idx if not miss(x[j])]
            missing_in_window = any(miss(x[j]) for j in idx)
            if min_obs is not None:
                need = min_obs
            elif min_period is not None:
                steps = [t[j + 1] - t[j] for j in range(n - 1)]
                need = int(min_period / _median(steps)) if steps else None
            else:
                need = 1
            if need is None:
                out.append(ANY)  # sampling step undefined: outside the judged domain
                continue
            if len(w) < need:
                out.append(fs(U))
                continue
            s = _sstdev(w) if check_type == "std" else (max(w) - min(w) if w else None)
        if s is None:
            out.append(fs(U))
            continue
        adm = set()
        # max-min of dyadic values and the spread of identical values (exactly 0) are exact in every
        # implementation; only a non-zero standard deviation is legitimately rounded
        guard = check_type == "std" and s != 0 and any(
            near(s, thr, rel=1e-9, abs_=1e-12) for thr in (suspect_threshold, fail_threshold))
        cands = [s] if not guard else [s - abs(s) * 2e-9 - 2e-12, s + abs(s) * 2e-9 + 2e-12]
        if guard:
            # every verdict reachable for some value inside the band (the two thresholds may lie
            # within one ulp of each other, leaving SUSPECT only strictly between them)
            for thr in (suspect_threshold, fail_threshold):
                if cands[0] <= thr <= cands[1]:
                    cands += [thr, math.nextafter(thr, -math.inf)]
        for c in cands:
            adm.add(F if c < fail_threshold else S if c < suspect_threshold else G)
        if check_type == "range" and missing_in_window:
            adm.add(U)
        out.append(frozenset(adm))
    return out


# --------------------------------------------------------------------------- C13


def density_inversion(rho, z, suspect_threshold=None, fail_threshold=None):
    n = len(rho)
    if len(z) != n:
        raise Reject(ValueError)
    if n == 0:
        return []
    if n == 1:
        return [fs(U, M) if (miss(rho[0]) or miss(z[0])) else fs(U)]
    flag = [G] * n
    for i in range(n - 1):
        vals = (rho[i], rho[i + 1], z[i], z[i + 1])
        if any(miss(v) for v in vals):
            continue
        dz = z[i + 1] - z[i]
        sign = (dz > 0) - (dz < 0)
        d = sign * (rho[i + 1] - rho[i])
        if suspect_threshold is not None and d < suspect_threshold:
            for j in (i, i + 1):
                if flag[j] != F:
                    flag[j] = S
        if fail_threshold is not None and d < fail_threshold:
            flag[i] = flag[i + 1] = F
    for i in range(n):
        if miss(rho[i]) or miss(z[i]):
            flag[i] = M
            if i + 1 < n:
                flag[i + 1] = M
    return [fs(f) for f in flag]


def pressure_increasing(p):
    n = len(p)
    if n < 2:
        return [fs(G)] * n
    steps = [p[i + 1] - p[i] for i in range(n - 1)]
    mean = sum(Fraction(s) for s in steps)
    if mean == 0:
        return None  # overall direction undefined: outside the judged domain
    sgn = 1 if mean > 0 else -1
    out = [fs(G)]
    for s in steps:
        out.append(fs(S) if s * sgn <= 0 else fs(G))
    return out
