"""Shared machinery for the plumbing properties (C04-aggregate, C05, C06, C18, C19):
tables with unique row ids, probe test functions registered at run time, spies on the
real test functions, front-end builders, the window semantics of the statement."""
from __future__ import annotations

import contextlib
import datetime as dt
import functools
import shutil
import tempfile
from pathlib import Path

import numpy as np
import pandas as pd

from vfw import core, gen

PROBE_FLAGS = [1, 3, 4, 2]
T0 = gen.T0


# --------------------------------------------------------------------------- tables


class Table:
    """n rows; every data value is a unique id (stream_no*1000 + row), auxiliary columns are
    injective functions of the row (DESIGN §2.2)."""

    def __init__(self, n, streams=("v1",), secs=None, with_z=True, with_pos=True, with_time=True, time_unit="ns") -> None:
        self.n = n
        self.streams = list(streams)
        self.secs = list(secs) if secs is not None else [T0 + 60 * i for i in range(n)]
        self.with_z, self.with_pos, self.with_time = with_z, with_pos, with_time
        self.data = {s: np.array([(k + 1) * 1000 + r for r in range(n)], dtype=float)
                     for k, s in enumerate(self.streams)}
        self.z = np.array([5000.0 + r for r in range(n)])
        self.lat = np.array([-60.0 + r * 0.5 for r in range(n)])
        self.lon = np.array([10.0 + r * 0.25 for r in range(n)])
        self.time_unit = time_unit
        if all(float(v) == int(v) for v in self.secs):
            self.time = np.array(self.secs, dtype="int64").astype("datetime64[s]").astype(f"datetime64[{time_unit}]")
        else:  # instants with a fractional second: nanosecond stamps
            self.time = np.array([us(v) * 1000 for v in self.secs], dtype="int64").astype("datetime64[ns]")

    def describe(self):
        d = {"n": self.n, "streams": self.streams,
             "secs_from_t0": [s - T0 for s in self.secs] if self.n <= 64 else f"<{self.n} rows: {[s - T0 for s in self.secs[:6]]} ...>",
             "with_z": self.with_z, "with_pos": self.with_pos, "with_time": self.with_time}
        if self.time_unit != "ns":
            d["time_unit"] = self.time_unit
        return d

    def rows_in(self, window):
        """The statement: rows with starting <= t < ending, an absent bound being open.  Without
        a time axis the window has no referent and the library documents that it skips it."""
        a, b = window
        if not self.with_time:
            return np.ones(self.n, dtype=bool)
        m = np.ones(self.n, dtype=bool)
        s = np.array(self.secs)
        if a is not None:
            m &= s >= a
        if b is not None:
            m &= s < b
        return m


def ts(sec, how="timestamp"):
    if sec is None:
        return None
    if how.startswith("aware:"):  # the same instant as a tz-aware stamp in the named zone
        return pd.Timestamp(int(round(sec * 1000)), unit="ms", tz="UTC").tz_convert(how[6:])
    if sec != int(sec) and -2 ** 33 < sec < 2 ** 33:
        tsx = pd.Timestamp(us(sec) * 1000, unit="ns")  # fractional seconds, to the microsecond
        return tsx if how in ("timestamp", "dt64") else tsx.to_pydatetime() if how == "datetime" else tsx.isoformat()
    if sec != int(sec) or not (-2 ** 33 < sec < 2 ** 33):
        tsx = pd.Timestamp(int(round(sec * 1000)), unit="ms")  # fractional seconds / far dates
        return tsx if how in ("timestamp", "dt64") else tsx.to_pydatetime() if how == "datetime" else tsx.isoformat()
    d = dt.datetime(1970, 1, 1) + dt.timedelta(seconds=int(sec))
    if how == "timestamp":
        return pd.Timestamp(d)
    if how == "datetime":
        return d
    if how == "dt64":
        return np.datetime64(d, "s")
    if how == "iso":
        return d.strftime("%Y-%m-%dT%H:%M:%S")
    raise KeyError(how)


# --------------------------------------------------------------------------- probes & spies

LOG = []  # events recorded by probes and spies during one run


def _a(v):
    if v is None:
        return None
    if isinstance(v, pd.Series):
        return v.to_numpy()
    return np.asarray(v)


def us(sec):
    """epoch seconds (int / float, exact) -> whole microseconds"""
    from fractions import Fraction

    return int(sec) * 10 ** 6 if isinstance(sec, (int, np.integer)) else int(round(Fraction(float(sec)) * 10 ** 6))


def _times_to_secs(v):
    """what a test was handed as time input, as whole microseconds since the epoch (sub-second instants are instants too)"""
    if v is None:
        return None
    a = _a(v)
    if a.dtype.kind == "M":
        unit = np.datetime_data(a.dtype)[0]
        if unit in ("s", "m", "h", "D"):
            return [int(x) * 10 ** 6 for x in a.astype("datetime64[s]").astype("int64").tolist()]
        if unit == "ms":
            return [int(x) * 1000 for x in a.astype("int64").tolist()]
        return a.astype("datetime64[us]").astype("int64").tolist()
    if a.dtype.kind in "iuf":
        return [us(x) for x in a.tolist()]
    return [int(pd.Timestamp(x).value // 1000) for x in a.tolist()]


def install_probes():
    import ioos_qc.qartod as q

    def vf_probe_test(inp, tinp=None, zinp=None, lat=None, lon=None, tag=0):
        raw = _a(inp)
        a = np.asarray(raw, dtype=float)
        LOG.append({"ev": "probe", "tag": tag, "ids": a.tolist(), "tinp": _times_to_secs(tinp),
                    "zinp": None if zinp is None else _a(zinp).astype(float).tolist(),
                    "lat": None if lat is None else _a(lat).astype(float).tolist(),
                    "lon": None if lon is None else _a(lon).astype(float).tolist(),
                    "shape": list(a.shape)})
        flat = raw.reshape(-1).tolist() if raw.dtype.kind in "iu" else a.reshape(-1)  # integer ids beyond 2**53 stay exact
        out = np.ma.array([PROBE_FLAGS[(int(v) + int(tag)) % 4] for v in flat], dtype="uint8")
        return out.reshape(a.shape)

    def vf_raise_test(inp, kind="ValueError", tag=0):
        LOG.append({"ev": "raise-probe", "kind": kind})
        exc = {"ValueError": ValueError, "TypeError": TypeError, "KeyError": KeyError, "IndexError": IndexError,
               "ZeroDivisionError": ZeroDivisionError, "AssertionError": AssertionError,
               "RuntimeError": RuntimeError, "FloatingPointError": FloatingPointError}[kind]
        raise exc(f"injected {kind}")

    for f in (vf_probe_test, vf_raise_test):
        f.__module__ = "ioos_qc.qartod"
        setattr(q, f.__name__, f)
    return vf_probe_test


def probe_flag(id_, tag):
    return PROBE_FLAGS[(int(id_) + int(tag)) % 4]


def remove_probes() -> None:
    import ioos_qc.qartod as q

    for n in ("vf_probe_test", "vf_raise_test"):
        if hasattr(q, n):
            delattr(q, n)


REAL = {}  # (module name, attr) -> unwrapped real function


@contextlib.contextmanager
def spies(names):
    """Wrap module attributes (e.g. 'qartod.spike_test') so each call is logged with the arrays
    it received and its result.  Config resolves tests with getattr at construction time, so
    install before building the Config."""
    import importlib

    saved = []
    for full in names:
        modname, attr = full.split(".")
        mod = importlib.import_module(f"ioos_qc.{modname}")
        real = getattr(mod, attr)
        REAL[(modname, attr)] = real

        def mk(real=real, full=full):
            @functools.wraps(real)
            def spy(*a, **kw):
                ev = {"ev": "spy", "func": full, "kw": {k: v for k, v in kw.items()}, "args": a}
                LOG.append(ev)
                try:
                    r = real(*a, **kw)
                    ev["result"] = r
                    return r
                except Exception as e:
                    ev["raised"] = type(e).__name__
                    raise
            return spy
        setattr(mod, attr, mk())
        saved.append((mod, attr, real))
    try:
        yield
    finally:
        for mod, attr, real in saved:
            setattr(mod, attr, real)


# --------------------------------------------------------------------------- front ends

FRONTENDS = ["pandas", "numpy-dict", "numpy-array", "xarray-ds", "xarray-file", "netcdf-ds", "netcdf-file", "qcconfig"]


class Scratch:
    def __init__(self) -> None:
        self.dir = Path(tempfile.mkdtemp(prefix="vf-scratch-"))
        self.k = 0

    def path(self, suffix):
        self.k += 1
        return self.dir / f"f{self.k}{suffix}"

    def close(self) -> None:
        shutil.rmtree(self.dir, ignore_errors=True)


def aware_times(tb: Table, zone):
    """the table's instants as a tz-aware pandas index in `zone` (same instants, other wall clock)"""
    return pd.DatetimeIndex(tb.time).tz_localize("UTC").tz_convert(zone)


def to_frame(tb: Table, index="default", names=None, time_tz=None):
    names = names or {}
    cols = {}
    if tb.with_time:
        cols[names.get("time", "time")] = tb.time if time_tz is None else aware_times(tb, time_tz)
    if tb.with_z:
        cols[names.get("z", "z")] = tb.z
    if tb.with_pos:
        cols[names.get("lat", "lat")] = tb.lat
        cols[names.get("lon", "lon")] = tb.lon
    for s in tb.streams:
        cols[s] = tb.data[s]
    df = pd.DataFrame(cols)
    n = tb.n
    if index == "shifted":
        df.index = range(100, 100 + n)
    elif index == "permuted":
        df.index = [(i * 7 + 3) % n for i in range(n)] if n else []
    elif index == "string":
        df.index = [f"r{i}" for i in range(n)]
    elif index == "datetime":
        df.index = pd.DatetimeIndex(tb.time)
    elif index == "reversed":
        df.index = list(range(n))[::-1]
    elif index == "duplicated":
        df.index = [i // 2 for i in range(n)]
    elif index == "constant":
        df.index = [7] * n
    return df


def to_dataset(tb: Table, time_coord=True):
    import xarray as xr

    dv = {s: ("time", tb.data[s]) for s in tb.streams}
    if tb.with_z:
        dv["z"] = ("time", tb.z)
    if tb.with_pos:
        dv["lat"] = ("time", tb.lat)
        dv["lon"] = ("time", tb.lon)
    if tb.with_time and time_coord:
        return xr.Dataset(dv, coords={"time": tb.time})
    if tb.with_time:
        # the layout of Dataset.from_dataframe(df): time is a data variable on an integer dimension
        dv = {k: ("index", v[1]) for k, v in dv.items()}
        dv["time"] = ("index", tb.time)
        return xr.Dataset(dv, coords={"index": np.arange(tb.n)})
    return xr.Dataset(dv)


def to_netcdf_epoch(tb: Table, scratch: Scratch):
    """NetCDF-3 file whose time variable is plain epoch seconds (NetcdfStream opens with
    decode_cf=False and the documented convention for undecoded times is epoch seconds)."""
    import xarray as xr

    dv = {s: ("time", tb.data[s]) for s in tb.streams}
    if tb.with_z:
        dv["z"] = ("time", tb.z)
    if tb.with_pos:
        dv["lat"] = ("time", tb.lat)
        dv["lon"] = ("time", tb.lon)
    coords = {"time": np.array(tb.secs, dtype="float64")} if tb.with_time else {}
    ds = xr.Dataset(dv, coords=coords)
    p = scratch.path(".nc")
    ds.to_netcdf(p, engine="scipy")
    return str(p)


def run_frontend(fe, tb: Table, config_dict, scratch: Scratch, opts=None):
    """Run `config_dict` over the table with one front end.  Returns (list of ContextResult,
    None) or (None, exception).  For 'qcconfig' returns the dict of QcConfig.run."""
    from ioos_qc.config import Config, QcConfig
    from ioos_qc.streams import NetcdfStream, NumpyStream, PandasStream, XarrayStream

    opts = opts or {}
    kw_axes = {}
    try:
        if fe == "qcconfig":
            cfg = QcConfig(config_dict)
            kw = {"inp": tb.data[tb.streams[0]]}
            if opts.get("masked_input"):
                kw["inp"] = np.ma.MaskedArray(kw["inp"], mask=[(i % 3 == 1) for i in range(tb.n)])
            if tb.with_time:
                kw["tinp"] = tb.time
            if tb.with_z:
                kw["zinp"] = tb.z
            if tb.with_pos:
                kw["lat"], kw["lon"] = tb.lat, tb.lon
            return cfg.run(**kw), None
        cfg = Config(config_dict)
        if fe == "pandas":
            names = opts.get("names") or {}
            df = to_frame(tb, opts.get("index", "default"), names, time_tz=opts.get("time_tz"))
            st = PandasStream(df, **{k: v for k, v in names.items()})
        elif fe in ("numpy-dict", "numpy-array"):
            if tb.with_time:
                kw_axes["time"] = tb.time if opts.get("time_carrier", "dt64") == "dt64" else np.array(tb.secs)
            if tb.with_z:
                kw_axes["z"] = tb.z
            if tb.with_pos:
                kw_axes["lat"], kw_axes["lon"] = tb.lat, tb.lon
            inp = dict(tb.data) if fe == "numpy-dict" else tb.data[tb.streams[0]]
            if opts.get("masked_input"):
                mk = lambda a: np.ma.MaskedArray(a, mask=[(i % 3 == 1) for i in range(len(a))])  # noqa: E731
                inp = {k: mk(v) for k, v in inp.items()} if isinstance(inp, dict) else mk(inp)
            st = NumpyStream(inp=inp, **kw_axes)
        elif fe == "xarray-ds":
            st = XarrayStream(to_dataset(tb, time_coord=opts.get("time_coord", True)))
        elif fe == "xarray-file":
            p = scratch.path(".nc")
            to_dataset(tb).to_netcdf(p, engine="scipy")
            st = XarrayStream(str(p))
        elif fe == "netcdf-ds":
            st = NetcdfStream(to_dataset(tb))
        elif fe == "netcdf-file":
            st = NetcdfStream(to_netcdf_epoch(tb, scratch))
        else:
            raise KeyError(fe)
        if opts.get("add_later") is not None:
            # history: run once, then Config.add() more calls, then run again (the second run is the one judged)
            list(st.run(cfg))
            LOG.clear()
            cfg.add(Config(opts["add_later"]))
        return list(st.run(cfg)), None
    except Exception as e:  # noqa: BLE001
        return None, e


# --------------------------------------------------------------------------- configs


def window_dict(window, how="timestamp"):
    a, b = window
    if a is None and b is None:
        return None
    d = {}
    if a is not None:
        d["starting"] = ts(a, how)
    if b is not None:
        d["ending"] = ts(b, how)
    return d


def build_config(contexts, how="timestamp"):
    """contexts: list of {"window": (a, b), "streams": {sid: [(module, test, kwargs), ...]}}"""
    out = []
    for c in contexts:
        d = {"streams": {}}
        w = window_dict(c["window"], how)
        if w is not None:
            d["window"] = w
        if c.get("region") is not None:
            d["region"] = c["region"]  # GeoJSON; the stream front ends document that a region selects nothing yet
        for sid, tests in c["streams"].items():
            for module, test, kwargs in tests:
                d["streams"].setdefault(sid, {}).setdefault(module, {})[test] = dict(kwargs)
        out.append(d)
    return {"contexts": out}


def window_layouts(tb: Table, rng=None, half=False):
    """All qualitatively different windows for a table: absent, closed, start-only, end-only,
    empty, all-covering, and bounds exactly on row times / between rows."""
    s = tb.secs
    n = tb.n
    out = [(None, None)]
    if n == 0:
        return out
    idx = range(n) if n <= 16 else sorted({0, 1, 2, n // 3, n // 2, n // 2 + 1, n - 3, n - 2, n - 1})
    cuts = sorted({s[0] - 5, s[0], s[-1], s[-1] + 1, s[-1] + 5, *(s[i] for i in idx), *(s[i] + 1 for i in idx)})
    if half:  # bounds finer than the time axis' own resolution
        cuts = sorted({*cuts, *(s[i] + 0.5 for i in idx), s[0] - 0.5})
    for a in [None, *cuts]:
        for b in [None, *cuts]:
            if a is None and b is None:
                continue
            if a is not None and b is not None and b < a:
                continue
            out.append((a, b))
    # inverted bounds (ending before starting): no instant satisfies starting <= t < ending, so no row is selected
    inv = sorted({s[0], s[n // 2], s[-1], s[-1] + 1})
    out += [(a, b) for a in inv for b in inv if b < a]
    return out


# --------------------------------------------------------------------------- aggregate workload (C04)


def aggregate_workload(ctx, runs) -> None:
    """qartod.aggregate over CollectedResults produced by real windowed PandasStream runs
    (masked leftovers) and PandasStore.compute_aggregate's roll-up column."""
    from ioos_qc.qartod import aggregate
    from ioos_qc.results import collect_results
    from ioos_qc.stores import PandasStore

    from vfw import models

    rng = ctx.rng
    install_probes()
    scratch = Scratch()
    try:
        for _ in range(runs):
            n = rng.choice([1, 2, 3, 5, 8])
            # (every fourth run: a second stream whose column label differs from the first one's only in a character that
            #  is not CF-safe -- the roll-up is over results, not over column names)
            twin = rng.random() < 0.25
            tb = Table(n, streams=("v1",) if not twin else ("v1", "v.1", "v_1"))
            # disjoint windows that may leave rows uncovered
            cut1, cut2 = sorted((rng.randrange(0, n + 1), rng.randrange(0, n + 1)))
            wins = [(tb.secs[0] - 1, tb.secs[cut1] if cut1 < n else tb.secs[-1] + 1)]
            if cut2 < n:
                wins.append((tb.secs[cut2], tb.secs[-1] + 1))
            if rng.random() < 0.3:
                wins = wins[:1]
            ntests = rng.choice([1, 2, 3])
            contexts = []
            for wi, w in enumerate(wins):
                tests = [("qartod", "vf_probe_test", {"tag": wi * 10 + 1})]
                if ntests > 1:
                    tests.append(("qartod", "gross_range_test", {"fail_span": [0, 1003 + wi], "suspect_span": [1000, 1002]}))
                if ntests > 2:
                    tests.append(("qartod", "spike_test", {"suspect_threshold": 0.5, "fail_threshold": 5}))
                if rng.random() < 0.5:
                    # tests of other packages use the same flags and belong to the roll-up as well
                    tests.append(("axds", "valid_range_test", {"valid_span": [1000 + wi, 1002]}))
                if rng.random() < 0.3:
                    tests.append(("argo", "pressure_increasing_test", {}))
                sd = {"v1": tests}
                if twin:
                    sd["v.1"] = [("qartod", "vf_probe_test", {"tag": wi * 10 + 2})]
                    sd["v_1"] = [("qartod", "vf_probe_test", {"tag": wi * 10 + 3})]
                    ctx.count("aggregate.runs_with_look_alike_stream_labels")
                contexts.append({"window": w, "streams": sd})
            res, err = run_frontend("pandas", tb, build_config(contexts), scratch)
            if err is not None:
                ctx.violation(f"C04:stream-run-raised:{type(err).__name__}", {"kind": "aggregate-run", "table": tb.describe(),
                                                                              "contexts": core.jsonable(contexts),
                                                                              "error": repr(err)[:300]})
                continue
            try:
                collected = collect_results(res, how="list")
                agg = aggregate(collected)
                store = PandasStore(res)
                if rng.random() < 0.5:
                    store.save(write_data=False, write_axes=False)  # history: the store was saved before the roll-up
                    ctx.count("aggregate.saved_before_rollup")
                store.compute_aggregate(name="rollup")
                df = store.save(write_data=False, write_axes=False)
            except Exception as e:  # noqa: BLE001
                ctx.violation(f"C04:aggregate-raised:{type(e).__name__}@{core.slug(str(client_where(e)))}",
                              {"kind": "aggregate-run", "table": tb.describe(), "contexts": core.jsonable(contexts),
                               "error": repr(e)[:300]})
                continue
            if rng.random() < 0.4:
                # history: a further result arrives after the roll-up was taken and the roll-up is taken again under the
                # same name: the roll-up result the store now holds last covers every result it holds
                try:
                    from ioos_qc.qartod import aggregate as _agg  # noqa: PLC0415
                    from ioos_qc.results import CollectedResult  # noqa: PLC0415
                    import ioos_qc.qartod as _q  # noqa: PLC0415

                    late = np.ma.array([rng.choice([1, 3, 4, 2]) for _ in range(n)], dtype="uint8")
                    store.collected_results.append(CollectedResult(stream_id="v1", package="qartod", test="flat_line_test",
                                                                   function=_q.flat_line_test, results=late))
                    store.compute_aggregate(name="rollup")
                    rolls = [c for c in store.collected_results if c.function is _agg and c.test == "rollup"]
                    others = [c for c in store.collected_results if c.function is not _agg]
                    vec_o = [[None if np.ma.getmaskarray(c.results)[i] else int(np.ma.getdata(c.results)[i]) for i in range(n)] for c in others]
                    want_r = models.compare(vec_o)
                    got_r = np.ma.getdata(rolls[-1].results).astype(int).tolist() if rolls else None
                    ctx.count("aggregate.rollup_retaken_after_a_late_result")
                    if got_r != want_r:
                        ctx.violation("C04:rollup-retaken-after-a-late-result",
                                      {"kind": "aggregate-run", "table": tb.describe(), "contexts": core.jsonable(contexts), "late_result": late.tolist(),
                                       "expected_latest_rollup": want_r, "observed_latest_rollup": got_r, "rollup_results_held": len(rolls)})
                except Exception as e:  # noqa: BLE001
                    ctx.violation(f"C04:rollup-retaken:raised:{type(e).__name__}", {"kind": "aggregate-run", "error": repr(e)[:300]})
            vectors = []
            for cr in collected:
                data, mask = np.ma.getdata(cr.results), np.ma.getmaskarray(cr.results)
                vectors.append([None if mask[i] else int(data[i]) for i in range(n)])
            expect = models.compare(vectors)
            got = np.ma.getdata(agg).tolist()
            ctx.count("aggregate.calls")
            ctx.case(f"aggregate|k{len(vectors)}|w{len(wins)}|uncovered{any(None in v for v in vectors)}")
            if got != expect or np.ma.getmaskarray(agg).any():
                ctx.violation("C04:aggregate-over-collected-results",
                              {"kind": "aggregate-run", "table": tb.describe(), "contexts": core.jsonable(contexts),
                               "collected": vectors, "expected": expect, "observed": got})
            if rng.random() < 0.5:
                # the same stream checked again under another configuration (same stream / package / test labels, other
                # flags), both sets of collected results rolled up together: every result handed over counts
                contexts_b = [{"window": c["window"], "streams": {"v1": [(m, t, ({**kw, "tag": kw["tag"] + 1 + wi} if t == "vf_probe_test" else kw))
                                                                    for m, t, kw in c["streams"]["v1"]]}}
                              for wi, c in enumerate(contexts)]
                res_b, err_b = run_frontend("pandas", tb, build_config(contexts_b), scratch)
                if err_b is None:
                    collected_b = collect_results(res_b, how="list")
                    both_ = list(collected) + list(collected_b)
                    if rng.random() < 0.5:
                        both_.reverse()
                    vec_b = []
                    for cr in both_:
                        data, mask = np.ma.getdata(cr.results), np.ma.getmaskarray(cr.results)
                        vec_b.append([None if mask[i] else int(data[i]) for i in range(n)])
                    try:
                        got_b = np.ma.getdata(aggregate(both_)).tolist()
                    except Exception as e:  # noqa: BLE001
                        got_b = f"raised {type(e).__name__}"
                    ctx.count("aggregate.calls")
                    ctx.count("aggregate.two_runs_rolled_up_together")
                    if got_b != models.compare(vec_b):
                        ctx.violation("C04:aggregate-over-results-of-two-runs",
                                      {"kind": "aggregate-run", "table": tb.describe(), "contexts": core.jsonable(contexts),
                                       "contexts_second_run": core.jsonable(contexts_b), "collected": vec_b,
                                       "expected": models.compare(vec_b), "observed": got_b})
            roll = [c for c in df.columns if c.endswith("rollup")]
            ctx.count("rollup.columns_checked", len(roll))
            if len(roll) != 1:
                ctx.violation("C04:rollup-column-missing", {"kind": "aggregate-run", "columns": list(df.columns)})
            else:
                col = df[roll[0]].to_numpy()
                try:
                    colv = [int(v) for v in col.tolist()]
                except (TypeError, ValueError):
                    colv = col.tolist()
                if colv != expect:
                    ctx.violation("C04:rollup-column-wrong",
                                  {"kind": "aggregate-run", "table": tb.describe(), "contexts": core.jsonable(contexts),
                                   "collected": vectors, "expected": expect, "observed": core.jsonable(colv)})
    finally:
        scratch.close()
        remove_probes()


def client_where(e):
    from vfw import client

    return client.innermost_repo_frame(e.__traceback__)
