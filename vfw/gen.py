"""Workload generators shared by the checks: carriers, dyadic series, time axes."""
from __future__ import annotations

import datetime as dt
import itertools

import numpy as np
import pandas as pd

NAN = float("nan")
T0 = 1614556800  # 2021-03-01T00:00:00Z


def arr(vals, dtype=float):
    """logical list (None = missing) -> float ndarray with NaN"""
    return np.array([np.nan if v is None else v for v in vals], dtype=dtype)


def carried(rng, vals, poisons=(50.0, -50.0, 0.0, 1.0), p_masked=0.2, p_list=0.15):
    """the same logical series as an ndarray with NaN, a list with None, or a masked array hiding a FINITE value
    under every missing element (reading under the mask must not change anything)"""
    r = rng.random()
    present = [v for v in vals if v is not None]
    if present and rng.random() < 0.12 and all(float(np.float32(v)) == v for v in present):
        return arr(vals).astype(np.float32)  # float32-exact values: the same logical series in a narrower dtype
    if present and len(present) == len(vals) and rng.random() < 0.08 and all(v == int(v) and abs(v) < 2 ** 31 for v in vals):
        fits16 = all(-32768 <= v <= 32767 for v in vals)
        return np.array([int(v) for v in vals], dtype=rng.choice(["int16", "int32", "int64"] if fits16 else ["int32", "int64"]))
    if r < p_masked and any(v is None for v in vals):
        ma = np.ma.MaskedArray(np.array([rng.choice(poisons) if v is None else v for v in vals], dtype=float),
                               mask=[v is None for v in vals])
        if present and rng.random() < 0.5:
            ma.fill_value = rng.choice(present)  # a fill value that is also a real observation elsewhere in the series
        return ma
    if r < p_masked + p_list:
        return list(vals)
    return arr(vals)


def int_carriers(vals):
    """the same whole-number series in every integer dtype that can hold it (unsigned ones included): (name, array)"""
    iv = [int(v) for v in vals]
    out = []
    for name in ("uint8", "int8", "uint16", "int16", "uint32", "int32", "uint64", "int64"):
        info = np.iinfo(name)
        if all(info.min <= v <= info.max for v in iv):
            out.append((name, np.array(iv, dtype=name)))
    out.append(("list-int", list(iv)))
    return out


def ptype(rng, v):
    """the same number as a Python int / float or a numpy scalar (parameter *types* must not matter)"""
    if v is None or isinstance(v, bool):
        return v
    if isinstance(v, (list, tuple)):
        out = [ptype(rng, x) for x in v]
        return tuple(out) if (isinstance(v, tuple) or rng.random() < 0.25) else out
    kinds = ["float", "np.float64"]
    if float(v) == int(v) and abs(v) < 2 ** 31:
        kinds += ["int", "np.int64", "np.int32"]
    if float(np.float32(v)) == float(v):
        kinds.append("np.float32")
    k = rng.choice(kinds)
    return {"float": float, "np.float64": np.float64, "int": lambda x: int(x), "np.int64": lambda x: np.int64(int(x)),
            "np.int32": lambda x: np.int32(int(x)), "np.float32": np.float32}[k](v)


def nanlist(vals):
    return [NAN if v is None else v for v in vals]


def regular(n, step, t0=T0):
    return [t0 + i * step for i in range(n)]


def irregular(rng, n, t0=T0, steps=(1, 2, 3, 7, 60, 61, 900, 3600, 86400, 200000)):
    t, out = t0, []
    for _ in range(n):
        out.append(t)
        t += rng.choice(steps)
    return out


TIME_CARRIERS = ["dt64ns", "dt64s", "dt64ms", "dt64us", "epoch-int", "epoch-float", "epoch-list",
                 "pydatetime", "pydatetime-utc", "timestamp-list", "dtindex", "dtindex-utc", "series", "series-utc",
                 "dtindex-s", "dtindex-utc-s", "series-utc-s", "series-utc-ms", "series-ms", "dtindex-utc-us",
                 "epoch-int32", "epoch-uint32", "dt64ns-scalar-list", "dt64s-scalar-tuple"]


def ftimes(secs, carrier="dt64ns"):
    """epoch seconds with a fractional part that is a multiple of 1 ms -> time carrier (None if the
    carrier cannot represent sub-second instants)"""
    ms = np.array([round(s * 1000) for s in secs], dtype="int64")
    base = ms.astype("datetime64[ms]")
    if carrier in ("dt64s", "epoch-int", "epoch-int32", "epoch-uint32", "dt64s-scalar-tuple"):
        return None
    if carrier == "dt64ns-scalar-list":
        return list(base.astype("datetime64[ns]"))
    if carrier == "dt64ns":
        return base.astype("datetime64[ns]")
    if carrier == "dt64ms":
        return base
    if carrier == "dt64us":
        return base.astype("datetime64[us]")
    if carrier == "epoch-float":
        return np.array(secs, dtype="float64")
    if carrier == "epoch-list":
        return [float(s) for s in secs]
    if carrier == "pydatetime":
        return [dt.datetime(1970, 1, 1) + dt.timedelta(milliseconds=int(m)) for m in ms]
    if carrier == "pydatetime-utc":
        return [dt.datetime(1970, 1, 1, tzinfo=dt.timezone.utc) + dt.timedelta(milliseconds=int(m)) for m in ms]
    if carrier == "timestamp-list":
        return [pd.Timestamp(int(m), unit="ms") for m in ms]
    if carrier == "dtindex":
        return pd.DatetimeIndex(base.astype("datetime64[ns]"))
    if carrier == "dtindex-utc":
        return pd.DatetimeIndex(base.astype("datetime64[ns]"), tz="UTC")
    if carrier == "series":
        return pd.Series(base.astype("datetime64[ns]"))
    if carrier == "series-utc":
        return pd.Series(pd.DatetimeIndex(base.astype("datetime64[ns]"), tz="UTC"))
    if carrier.split("-")[-1] in ("s", "ms", "us"):
        unit = carrier.split("-")[-1]
        if unit == "s":
            return None
        idx = pd.DatetimeIndex(base.astype(f"datetime64[{unit}]"))
        if "utc" in carrier:
            idx = idx.tz_localize("UTC")
        return pd.Series(idx) if carrier.startswith("series") else idx
    raise KeyError(carrier)


def times(secs, carrier="dt64ns"):
    """integer epoch seconds -> one of the documented time carriers"""
    if any(s != int(s) for s in secs):
        return ftimes(secs, carrier)
    base = np.array(secs, dtype="int64").astype("datetime64[s]")
    if carrier == "dt64ns":
        return base.astype("datetime64[ns]")
    if carrier == "dt64s":
        return base
    if carrier == "dt64ms":
        return base.astype("datetime64[ms]")
    if carrier == "dt64us":
        return base.astype("datetime64[us]")
    if carrier == "dt64ns-scalar-list":
        return list(base.astype("datetime64[ns]"))
    if carrier == "dt64s-scalar-tuple":
        return tuple(base)
    if carrier == "epoch-int":
        return np.array(secs, dtype="int64")
    if carrier == "epoch-int32":
        return np.array(secs, dtype="int32") if all(0 <= s < 2 ** 31 for s in secs) else np.array(secs, dtype="int64")
    if carrier == "epoch-uint32":
        return np.array(secs, dtype="uint32") if all(0 <= s < 2 ** 32 for s in secs) else np.array(secs, dtype="int64")
    if carrier == "epoch-float":
        return np.array(secs, dtype="float64")
    if carrier == "epoch-list":
        return [int(s) for s in secs]
    if carrier == "pydatetime":
        return [dt.datetime(1970, 1, 1) + dt.timedelta(seconds=int(s)) for s in secs]
    if carrier == "pydatetime-utc":
        return [dt.datetime(1970, 1, 1, tzinfo=dt.timezone.utc) + dt.timedelta(seconds=int(s)) for s in secs]
    if carrier == "timestamp-list":
        return [pd.Timestamp(int(s), unit="s") for s in secs]
    if carrier == "dtindex":
        return pd.DatetimeIndex(base.astype("datetime64[ns]"))
    if carrier == "dtindex-utc":
        return pd.DatetimeIndex(base.astype("datetime64[ns]"), tz="UTC")
    if carrier == "series":
        return pd.Series(base.astype("datetime64[ns]"))
    if carrier == "series-utc":
        return pd.Series(pd.DatetimeIndex(base.astype("datetime64[ns]"), tz="UTC"))
    if carrier.split("-")[-1] in ("s", "ms", "us"):  # pandas carriers stored in a coarser unit
        unit = carrier.split("-")[-1]
        idx = pd.DatetimeIndex(base.astype(f"datetime64[{unit}]"))
        if "utc" in carrier:
            idx = idx.tz_localize("UTC")
        return pd.Series(idx) if carrier.startswith("series") else idx
    raise KeyError(carrier)


def dyadic(rng, lo=-8, hi=8, q=4):
    return rng.randrange(lo * q, hi * q + 1) / q


def series(rng, n, pmiss=0.15, kind=None):
    """plateau / ramp / step / spike / noise series over dyadic values, with missing values"""
    kind = kind or rng.choice(["plateau", "ramp", "step", "spike", "dspike", "noise"])
    base = dyadic(rng)
    out = []
    for i in range(n):
        if kind == "plateau":
            v = base
        elif kind == "ramp":
            v = base + i * 0.25
        elif kind == "step":
            v = base + (2.0 if i >= n // 2 else 0.0)
        elif kind == "spike":
            v = base + (3.0 if i == n // 2 else 0.0)
        elif kind == "dspike":
            v = base + (3.0 if i in (n // 2, n // 2 + 1) else 0.0)
        else:
            v = dyadic(rng)
        out.append(v)
    if kind != "noise" and rng.random() < 0.5:
        for _ in range(rng.randrange(0, 3)):
            if n:
                out[rng.randrange(n)] += rng.choice([-1, 0.5, 0.25, 2])
    return [None if rng.random() < pmiss else v for v in out]


def placements(n, symbols=(0, 1)):
    return itertools.product(symbols, repeat=n)


def flagset(o):
    if o.kind == "raise":
        return "raise:" + o.exc_type
    if o.flags is None:
        return "?"
    return "".join(str(int(v)) for v in sorted(set(o.flags.reshape(-1).tolist())))


def nclass(n):
    return str(n) if n <= 3 else "4-8" if n <= 8 else "9+"


def mclass(vals):
    k = sum(1 for v in vals if v is None)
    return "none" if k == 0 else "all" if k == len(vals) else "some"
