"""W5: run the repository's own tests with the L2 contracts switched on.
  pytest -p vfw.pytest_plugin ...   (VFW_PLUGIN_OUT = path of the JSON report)"""
import json
import os

from vfw import core

core.setup_paths()


def pytest_configure(config):
    from vfw import contracts

    config._vfw_mon = contracts.install()


def pytest_sessionfinish(session, exitstatus):
    mon = getattr(session.config, "_vfw_mon", None)
    out = os.environ.get("VFW_PLUGIN_OUT")
    if mon is not None and out:
        import ioos_qc

        with open(out, "w") as f:
            json.dump({"evals": dict(mon.evals), "broken": mon.broken[:200], "exitstatus": int(exitstatus),
                       "ioos_qc_file": ioos_qc.__file__}, f)
