"""L1 boundary client: every workload call to a QC test function goes through
`invoke`, which records what went in, what came out (or was raised) and checks that the
caller's arguments were left alone.  Also: comparison against admissible sets, replay."""
from __future__ import annotations

import copy
import importlib
import traceback

import numpy as np

from vfw import core
from vfw.models import Reject

TESTS = {
    "qartod.location_test": ("ioos_qc.qartod", "location_test"),
    "qartod.gross_range_test": ("ioos_qc.qartod", "gross_range_test"),
    "qartod.climatology_test": ("ioos_qc.qartod", "climatology_test"),
    "qartod.spike_test": ("ioos_qc.qartod", "spike_test"),
    "qartod.rate_of_change_test": ("ioos_qc.qartod", "rate_of_change_test"),
    "qartod.flat_line_test": ("ioos_qc.qartod", "flat_line_test"),
    "qartod.attenuated_signal_test": ("ioos_qc.qartod", "attenuated_signal_test"),
    "qartod.density_inversion_test": ("ioos_qc.qartod", "density_inversion_test"),
    "argo.speed_test": ("ioos_qc.argo", "speed_test"),
    "argo.pressure_increasing_test": ("ioos_qc.argo", "pressure_increasing_test"),
    "axds.valid_range_test": ("ioos_qc.axds", "valid_range_test"),
    "qartod.qartod_compare": ("ioos_qc.qartod", "qartod_compare"),
}


def resolve(name):
    modname, attr = TESTS.get(name) or name.rsplit(".", 1)
    return getattr(importlib.import_module(modname), attr)


class Outcome:
    __slots__ = ("kind", "raw", "flags", "masked", "shape", "dtype", "exc", "exc_type", "where", "mutated")

    def __init__(self) -> None:
        self.kind = None
        self.raw = None
        self.flags = None
        self.masked = None
        self.shape = None
        self.dtype = None
        self.exc = None
        self.exc_type = None
        self.where = None
        self.mutated = []

    def brief(self):
        if self.kind == "raise":
            return {"raised": self.exc_type, "message": str(self.exc)[:300], "where": self.where}
        return {"flags": None if self.flags is None else core.jsonable(np.asarray(self.flags).reshape(-1).tolist()),
                "masked_positions": None if self.masked is None else [int(i) for i in np.flatnonzero(self.masked)],
                "shape": list(self.shape) if self.shape is not None else None, "dtype": self.dtype}


def _snap(v):
    """(digest, deep copy) of an argument so that in-place modification is detected."""
    if isinstance(v, np.ndarray):
        return core.digest(v)
    try:
        import pandas as pd

        if isinstance(v, (pd.Series, pd.Index)):
            return core.digest(v.to_numpy())
    except Exception:  # noqa: BLE001
        pass
    if hasattr(v, "members"):  # ClimatologyConfig
        return repr([tuple(m) for m in v.members])
    try:
        return repr(copy.deepcopy(v))
    except Exception:  # noqa: BLE001
        return repr(v)


def innermost_repo_frame(tb):
    where = None
    for fs in traceback.extract_tb(tb):
        if "/ioos_qc/" in fs.filename:
            where = f"{fs.filename.split('/ioos_qc/')[-1]}:{fs.name}"
    return where


# results handed back earlier must stay what they were: the last few returned arrays are kept (the objects themselves) with a
# snapshot of their bytes, and re-read after every later call (a library that recycles an internal buffer shows up here)
RECENT = []  # [raw result, snapshot bytes, function name, flags as returned]
ALIAS_EVENTS = []
RECENT_MAX = 6
COUNTS = {"results_rechecked_after_later_calls": 0}


def _result_bytes(r):
    try:
        return np.ascontiguousarray(np.ma.getdata(r)).tobytes() + np.ascontiguousarray(np.ma.getmaskarray(r)).tobytes()
    except Exception:  # noqa: BLE001
        return None


def _recheck_recent(later):
    for ent in RECENT:
        COUNTS["results_rechecked_after_later_calls"] += 1
        now = _result_bytes(ent[0])
        if now is not None and now != ent[1]:
            try:
                after = np.asarray(np.ma.getdata(ent[0])).reshape(-1)[:40].tolist()
            except Exception:  # noqa: BLE001
                after = None
            ALIAS_EVENTS.append({"earlier_call": ent[2], "later_call": later, "flags_as_returned": ent[3], "flags_now": after})
            ent[1] = now  # report each change once


def drain_alias(ctx, prefix) -> None:
    """turn buffered 'an earlier result changed' observations into violations of the running check"""
    ctx.counters["client.results_rechecked_after_later_calls"] = COUNTS["results_rechecked_after_later_calls"]
    while ALIAS_EVENTS:
        ev = ALIAS_EVENTS.pop()
        ctx.violation(f"{prefix}:earlier-result-changed-by-later-call:{ev['earlier_call']}", {"kind": "alias", **ev})


def invoke(name, kwargs, check_purity=True) -> Outcome:
    fn = resolve(name) if isinstance(name, str) else name
    o = Outcome()
    before = {k: _snap(v) for k, v in kwargs.items()} if check_purity else None
    try:
        with np.errstate(all="ignore"):
            r = fn(**kwargs)
        o.kind = "return"
        o.raw = r
        try:
            o.flags = np.asarray(np.ma.getdata(r))
            o.masked = np.ma.getmaskarray(r)
            o.shape = np.shape(r)
            o.dtype = str(getattr(r, "dtype", type(r).__name__))
        except Exception:  # noqa: BLE001
            o.flags = None
    except Exception as e:  # noqa: BLE001
        o.kind = "raise"
        o.exc = e
        o.exc_type = type(e).__name__
        o.where = innermost_repo_frame(e.__traceback__)
    if check_purity:
        for k, v in kwargs.items():
            if _snap(v) != before[k]:
                o.mutated.append(k)
    fname = name if isinstance(name, str) else getattr(fn, "__name__", "?")
    _recheck_recent(fname)
    if o.kind == "return" and o.flags is not None and 0 < o.flags.size <= 4096:
        snap = _result_bytes(o.raw)
        if snap is not None:
            RECENT.append([o.raw, snap, fname, o.flags.reshape(-1)[:40].tolist()])
            if len(RECENT) > RECENT_MAX:
                RECENT.pop(0)
    return o


def judge(o: Outcome, admissible, n=None):
    """Compare an outcome with a list of admissible flag sets.  Returns None if it
    conforms, else a short description of the first disagreement."""
    if o.kind == "raise":
        return f"raised {o.exc_type}: {str(o.exc)[:160]} at {o.where}"
    if o.flags is None:
        return "result is not array-like"
    fl = o.flags.reshape(-1) if o.flags.ndim != 1 else o.flags
    if len(fl) != len(admissible):
        return f"length {len(fl)} != {len(admissible)}"
    mk = o.masked.reshape(-1)
    for i, adm in enumerate(admissible):
        if mk[i]:
            return f"index {i}: flag hidden behind a mask"
        try:
            v = int(fl[i])
            ok = v == fl[i] and v in adm
        except (ValueError, TypeError):
            ok = False
        if not ok:
            return f"index {i}: got {fl[i]!r}, admissible {sorted(adm)} [want{''.join(map(str, sorted(adm)))}got{fl[i]}]"
    return None


def expect(ctx, cls_prefix, name, kwargs, model_thunk, logical=None, sample_key=None, hist=None):
    """Run model and implementation, compare, record.  model_thunk() returns admissible
    sets, or None (= outside the judged domain), or raises Reject(exc_type).
    `logical` is a JSON-able description of the case used for the witness."""
    try:
        adm = model_thunk()
        rejected = None
    except Reject as r:
        adm, rejected = None, r.exc_type
    o = invoke(name, kwargs)
    w = None
    if rejected is not None:
        if o.kind != "raise":
            w = ("not-rejected", f"expected {rejected.__name__}, returned {o.brief()}")
        elif not isinstance(o.exc, rejected):
            w = ("wrong-rejection", f"expected {rejected.__name__}, raised {o.exc_type}")
    elif adm is not None:
        msg = judge(o, adm)
        if msg is not None:
            kind = "raised" if o.kind == "raise" else "flag"
            w = (kind, msg)
    if o.mutated:
        ctx.violation(f"{cls_prefix}:input-mutated:{name}", {
            "kind": "call", "func": name, "case": logical if logical is not None else core.jsonable(kwargs),
            "mutated": o.mutated})
    if w is not None:
        detail = ""
        if w[0] == "raised":
            detail = f":{o.exc_type}@{o.where}"
        elif "[want" in w[1]:
            detail = ":" + w[1].rsplit("[", 1)[1].rstrip("]")
        ctx.violation(f"{cls_prefix}:{w[0]}:{name}{detail}", {
            "kind": "call", "func": name, "case": logical if logical is not None else core.jsonable(kwargs),
            "kwargs": core.jsonable(kwargs),
            "admissible": None if adm is None else [sorted(a) for a in adm],
            "expected_rejection": rejected.__name__ if rejected else None,
            "observed": o.brief(), "disagreement": w[1]})
    if hist and o.kind == "return" and o.flags is not None:
        ctx.flag_hist(hist, o.flags.reshape(-1).tolist())
    return o, adm


def unjson(x):
    if isinstance(x, str):
        if x == "NaN":
            return float("nan")
        if x == "Infinity":
            return float("inf")
        if x == "-Infinity":
            return float("-inf")
        return x
    if isinstance(x, list):
        return [unjson(v) for v in x]
    if isinstance(x, dict):
        if "__dt64__" in x:
            return np.array(x["__dt64__"], dtype=x.get("dtype", "datetime64[ns]"))
        if "__ma__" in x:
            return np.ma.MaskedArray(np.array(unjson(x["__ma__"]), dtype=x.get("dtype", "float64")),
                                     mask=np.array(x["mask"], dtype=bool))
        if "__pandas__" in x:
            import pandas as pd

            vals = unjson(x["values"])
            return pd.Series(vals, index=x["index"]) if x["__pandas__"] == "Series" else pd.Index(vals)
        return {k: unjson(v) for k, v in x.items()}
    return x


def generic_replay(w) -> int:
    import json

    print(json.dumps({k: v for k, v in w.items() if k != "kwargs"}, indent=1)[:4000])
    if w.get("kind") == "call" and "kwargs" in w:
        kwargs = unjson(w["kwargs"])
        for k, v in list(kwargs.items()):
            if isinstance(v, list) and k in ("inp", "zinp", "lon", "lat") and not any(x is None for x in v):
                kwargs[k] = np.array(v, dtype=float)
        o = invoke(w["func"], kwargs)
        print("re-executed on current tree:", json.dumps(core.jsonable(o.brief())))
        if w.get("admissible") is not None:
            msg = judge(o, [frozenset(a) for a in w["admissible"]])
            print("verdict now:", "conforms" if msg is None else msg)
            return 0 if msg is None else 1
    return 0
